"""Parser for TLA+ values as printed by TLC (states, PrintT output, simulate files).

parse(text) -> python value:
  <<a, b>>            -> list
  {a, b}              -> frozenset-like sorted list wrapped as ('set', [...])? -> we return python set where hashable, else list
  [k |-> v, ...]      -> dict
  (k :> v @@ k2 :> v) -> dict
  "str"               -> str ; 12 / -3 -> int ; TRUE/FALSE -> bool ; ident -> ModelValue(str)
"""
import re


class MV(str):
    """model value / bare identifier"""
    def __repr__(self):
        return "MV(%s)" % str.__repr__(self)


_tok = re.compile(r'''\s*(?:(<<|>>|\|->|:>|@@|[\[\]{}(),])|("(?:[^"\\]|\\.)*")|(-?\d+)|([A-Za-z_][A-Za-z0-9_!]*))''')


def _tokens(s):
    pos = 0
    out = []
    n = len(s)
    while pos < n:
        m = _tok.match(s, pos)
        if not m:
            if s[pos:].strip() == "":
                break
            raise ValueError("bad token at %d: %r" % (pos, s[pos:pos + 40]))
        pos = m.end()
        if m.group(1):
            out.append(("p", m.group(1)))
        elif m.group(2):
            out.append(("s", _unescape(m.group(2)[1:-1])))
        elif m.group(3):
            out.append(("i", int(m.group(3))))
        else:
            out.append(("id", m.group(4)))
    return out


def _unescape(s):
    return s.replace('\\"', '"').replace("\\\\", "\\").replace("\\n", "\n").replace("\\t", "\t")


class _P:
    def __init__(self, toks):
        self.t = toks
        self.i = 0

    def peek(self):
        return self.t[self.i] if self.i < len(self.t) else (None, None)

    def eat(self, kind=None, val=None):
        k, v = self.peek()
        if kind and (k != kind or (val is not None and v != val)):
            raise ValueError("expected %s %s got %s %s at %d" % (kind, val, k, v, self.i))
        self.i += 1
        return v

    def value(self):
        k, v = self.peek()
        if k == "s":
            self.i += 1
            return v
        if k == "i":
            self.i += 1
            return v
        if k == "id":
            self.i += 1
            if v == "TRUE":
                return True
            if v == "FALSE":
                return False
            return MV(v)
        if k == "p" and v == "<<":
            self.i += 1
            res = []
            while self.peek() != ("p", ">>"):
                res.append(self.value())
                if self.peek() == ("p", ","):
                    self.i += 1
            self.eat("p", ">>")
            return res
        if k == "p" and v == "{":
            self.i += 1
            res = []
            while self.peek() != ("p", "}"):
                res.append(self.value())
                if self.peek() == ("p", ","):
                    self.i += 1
            self.eat("p", "}")
            return SetV(res)
        if k == "p" and v == "[":
            self.i += 1
            res = {}
            while self.peek() != ("p", "]"):
                key = self.eat("id")
                self.eat("p", "|->")
                res[key] = self.value()
                if self.peek() == ("p", ","):
                    self.i += 1
            self.eat("p", "]")
            return res
        if k == "p" and v == "(":
            self.i += 1
            res = {}
            while True:
                key = self.value()
                self.eat("p", ":>")
                val = self.value()
                res[_hashable(key)] = val
                if self.peek() == ("p", "@@"):
                    self.i += 1
                    continue
                break
            self.eat("p", ")")
            return res
        raise ValueError("unexpected token %s %s at %d" % (k, v, self.i))


class SetV(list):
    pass


def _hashable(v):
    if isinstance(v, list):
        return tuple(_hashable(x) for x in v)
    if isinstance(v, dict):
        return tuple(sorted((k, _hashable(x)) for k, x in v.items()))
    return v


def parse(text):
    p = _P(_tokens(text))
    v = p.value()
    return v


def parse_state(text):
    """Parse a TLC state printed as conjunction '/\\ var = value' lines -> dict."""
    res = {}
    parts = re.split(r"^/\\ ", text.strip(), flags=re.M)
    for part in parts:
        part = part.strip()
        if not part:
            continue
        m = re.match(r"([A-Za-z_][A-Za-z0-9_]*) = (.*)$", part, re.S)
        if not m:
            continue
        res[m.group(1)] = parse(m.group(2))
    return res
