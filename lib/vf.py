"""Shared machinery for the Zeno TLA+ verification checks.

Every check (checks/cNN.py) gets a Ctx and uses it to
  * run TLC exhaustively / in simulation on a specification from specs/,
  * build the Go harness from /repo's current working tree with -tags verif,
  * run harness drivers that record ndjson traces of the real code,
  * hand those traces back to TLC (monitor spec + implementation-shaped trace spec),
  * write evidence/<id>.json and produce the verdict (exit 0 / 1 / 2).

Verdict protocol (DESIGN.md section 2):
  exit 1 + "VIOLATION property=<id> replay=<path>"  only for a real execution rejected by a monitor
  exit 2  for tool failure / timeout / unreproduced counterexample
  SPEC-DRIFT lines are informational (ImplSpec rejects, monitor accepts).
"""
import json
import os
import re
import shutil
import subprocess
import sys
import tempfile
import time

VERIF = os.path.dirname(os.path.dirname(os.path.abspath(__file__)))
REPO = os.environ.get("VERIF_REPO", "/repo")
SPECS = os.path.join(VERIF, "specs")
HARNESS = os.path.join(VERIF, "harness")
# VERIF_OUT redirects evidence and replays (used when trying the checks on seeded changes, so that the
# committed evidence of the unchanged tree is not overwritten)
EVID = os.path.join(os.environ.get("VERIF_OUT", VERIF), "evidence")
REPLAYS = os.path.join(os.environ.get("VERIF_OUT", VERIF), "replays")
KNOWN = os.path.join(VERIF, "known-findings.txt")
TLA_CP = "/opt/veriftools/tla/tla2tools.jar:/opt/veriftools/tla/CommunityModules-deps.jar"
NCPU = os.cpu_count() or 4


class Inconclusive(Exception):
    pass


def go_env():
    env = dict(os.environ)
    env["GOFLAGS"] = "-mod=mod"
    env["GOPROXY"] = "off"
    # GOTOOLCHAIN must stay "auto": the repo needs the cached go1.24.2 toolchain.
    env.pop("GOTOOLCHAIN", None)
    env.pop("GOSUMDB", None)
    return env


class TLCResult:
    def __init__(self, rc, out, wall):
        self.rc = rc
        self.out = out
        self.wall = wall
        self.generated = 0
        self.distinct = 0
        self.depth = 0
        m = None
        for m in re.finditer(r"(\d+) states generated, (\d+) distinct states found", out):
            pass
        if m:
            self.generated = int(m.group(1))
            self.distinct = int(m.group(2))
        m = re.search(r"The depth of the complete state graph search is (\d+)", out)
        if m:
            self.depth = int(m.group(1))
        self.ok = ("Model checking completed. No error has been found." in out) or (
            rc == 0 and "Error:" not in out)
        self.violated = None
        m = re.search(r"Error: Invariant (\S+) is violated", out)
        if m:
            self.violated = m.group(1)
        m = re.search(r"Error: Action property (\S+) is violated", out)
        if m:
            self.violated = m.group(1)
        if "Error: Temporal properties were violated" in out:
            self.violated = "temporal"
        if "Error: Deadlock reached" in out:
            self.violated = "deadlock"
        self.printed = re.findall(r"^<<\"VF_[A-Z]+\".*$", out, re.M)

    def vf(self, tag):
        """Return parsed payloads of PrintT(<<"VF_tag", ...>>) lines as raw strings."""
        res = []
        for line in self.out.splitlines():
            if line.startswith('<<"VF_%s"' % tag):
                res.append(line)
        return res


class Ctx:
    def __init__(self, prop, tier, seed, level):
        self.prop = prop
        self.tier = tier
        self.seed = seed
        self.level = level
        self.t0 = time.time()
        # scratch directories a killed run left behind (a check that is OOM- or time-killed cannot clean up)
        for d in os.listdir(tempfile.gettempdir()):
            fp = os.path.join(tempfile.gettempdir(), d)
            try:
                if d.startswith("verif-") and os.path.isdir(fp) and time.time() - os.path.getmtime(fp) > 4 * 3600:
                    shutil.rmtree(fp, ignore_errors=True)
            except OSError:
                pass
        self.scratch = tempfile.mkdtemp(prefix="verif-%s-" % prop)
        # everything the tools and the drivers create as temporary files goes under the scratch directory
        self.tmp = os.path.join(self.scratch, "tmp")
        os.makedirs(self.tmp, exist_ok=True)
        os.environ["TMPDIR"] = self.tmp
        self.violations = []      # (what, replay_path)
        self.known_hits = []      # strings
        self.drift = []
        self.cov = {"samples": []}
        self.assumptions = []
        self.bindir = None
        self.known = load_known(prop)
        os.makedirs(EVID, exist_ok=True)

    # ---------------------------------------------------------------- utils
    def log(self, *a):
        print("[%s %6.1fs]" % (self.prop, time.time() - self.t0), *a, flush=True)

    def cleanup(self):
        shutil.rmtree(self.scratch, ignore_errors=True)

    def sub(self, name):
        p = os.path.join(self.scratch, name)
        os.makedirs(p, exist_ok=True)
        return p

    # ---------------------------------------------------------------- harness
    def build_harness(self, cmds=("unit-verif",)):
        """(Re)build harness commands from /repo's working tree with -tags verif."""
        bindir = self.sub("bin")
        hdir = HARNESS
        if REPO != "/repo":
            # trying the checks on a copy of the repository (seeded changes, several at a time): the harness module is
            # copied next to it with its replace directive pointing at that copy; the registered commands never do this
            hdir = os.path.join(self.scratch, "harness-src")
            if not os.path.isdir(hdir):
                shutil.copytree(HARNESS, hdir)
                gm = open(os.path.join(hdir, "go.mod")).read().replace("=> /repo", "=> " + REPO)
                open(os.path.join(hdir, "go.mod"), "w").write(gm)
        shutil.copyfile(os.path.join(REPO, "go.sum"), os.path.join(hdir, "go.sum"))
        for c in cmds:
            t = time.time()
            p = subprocess.run(
                ["go", "build", "-tags", "verif", "-o", os.path.join(bindir, c), "./cmd/" + c],
                cwd=hdir, env=go_env(), stdout=subprocess.PIPE, stderr=subprocess.STDOUT, text=True)
            if p.returncode != 0:
                print(p.stdout)
                raise Inconclusive("harness build failed for %s" % c)
            self.log("built %s in %.1fs" % (c, time.time() - t))
        self.bindir = bindir
        return bindir

    def run_bin(self, cmd, args, timeout=600, cwd=None, env=None, check=True, stdin=None):
        e = dict(os.environ)
        e["VERIF_SEED"] = str(self.seed)
        if env:
            e.update(env)
        try:
            p = subprocess.run([os.path.join(self.bindir, cmd)] + list(args), cwd=cwd or self.scratch,
                               env=e, stdout=subprocess.PIPE, stderr=subprocess.PIPE, text=True,
                               timeout=timeout, input=stdin)
        except subprocess.TimeoutExpired:
            raise Inconclusive("harness %s %s timed out after %ss" % (cmd, args, timeout))
        if check and p.returncode != 0:
            sys.stdout.write(p.stdout[-4000:])
            sys.stdout.write(p.stderr[-4000:])
            raise Inconclusive("harness %s %s exited %d" % (cmd, args, p.returncode))
        return p

    # ---------------------------------------------------------------- TLC
    def tlc(self, module, cfg, files=(), workers=None, timeout=900, simulate=None, depth=None,
            extra=(), deadlock=True, copy=(), name=None, xss=True, dfs=False, heap=None, cwd=None):
        """Run TLC on specs/<module>.tla with specs/cfg/<cfg>. files: extra spec modules to copy
        (all of specs/*.tla are copied anyway). copy: (src, dstname) pairs placed next to the spec."""
        d = cwd or self.sub(name or ("tlc-" + cfg.replace(".cfg", "")))
        for f in os.listdir(SPECS):
            if f.endswith(".tla"):
                shutil.copyfile(os.path.join(SPECS, f), os.path.join(d, f))
        for sd in ("mon", "trace"):
            p = os.path.join(SPECS, sd)
            if os.path.isdir(p):
                for f in os.listdir(p):
                    if f.endswith(".tla"):
                        shutil.copyfile(os.path.join(p, f), os.path.join(d, f))
        cfgsrc = cfg if os.path.isabs(cfg) else os.path.join(SPECS, "cfg", cfg)
        shutil.copyfile(cfgsrc, os.path.join(d, "run.cfg"))
        for src, dst in copy:
            shutil.copyfile(src, os.path.join(d, dst))
        meta = os.path.join(d, "meta-%d" % int(time.time() * 1000))
        jopts = ["-XX:+UseParallelGC"]
        if xss:
            jopts.append("-Xss256m")
        if heap:
            jopts.append("-Xmx" + heap)
        if dfs:
            jopts.append("-Dtlc2.tool.queue.IStateQueue=StateDeque")
        jopts.append("-Djava.io.tmpdir=" + self.tmp)
        cmd = ["java"] + jopts + ["-cp", TLA_CP, "tlc2.TLC", "-config", "run.cfg", "-metadir", meta,
                                  "-workers", str(workers or "auto"), "-noGenerateSpecTE"]
        if not deadlock:
            cmd.append("-deadlock")
        if simulate is not None:
            cmd += ["-simulate", "num=%d" % simulate]
            if depth:
                cmd += ["-depth", str(depth)]
            cmd += ["-seed", str(self.seed)]
        elif depth:
            pass
        cmd += list(extra)
        cmd.append(module + ".tla")
        t = time.time()
        try:
            p = subprocess.run(cmd, cwd=d, stdout=subprocess.PIPE, stderr=subprocess.STDOUT, text=True,
                               timeout=timeout)
            out, rc = p.stdout, p.returncode
        except subprocess.TimeoutExpired as ex:
            out = (ex.stdout or b"").decode("utf-8", "replace") if isinstance(ex.stdout, bytes) else (ex.stdout or "")
            subprocess.run(["pkill", "-f", meta], stdout=subprocess.DEVNULL, stderr=subprocess.DEVNULL)
            raise Inconclusive("TLC %s/%s timed out after %ss\n%s" % (module, cfg, timeout, out[-2000:]))
        finally:
            shutil.rmtree(meta, ignore_errors=True)
            shutil.rmtree(os.path.join(d, "states"), ignore_errors=True)
        r = TLCResult(rc, out, time.time() - t)
        r.dir = d
        if ("Parsing or semantic analysis failed" in out or "Error: TLC threw an unexpected exception" in out
                or "java.lang.StackOverflowError" in out or "OutOfMemoryError" in out
                or "TLC encountered a non-enumerable" in out):
            sys.stdout.write(out[-6000:])
            raise Inconclusive("TLC tool failure on %s/%s" % (module, cfg))
        return r

    def tlc_expect_ok(self, module, cfg, **kw):
        """Exhaustive/simulation run of an ImplSpec that must satisfy its properties."""
        r = self.tlc(module, cfg, **kw)
        if not r.ok:
            sys.stdout.write(r.out[-8000:])
        return r

    # ---------------------------------------------------------------- trace validation
    def validate(self, module, cfg, trace_path, timeout=900, name=None, extra_copy=(), dfs=False, heap=None):
        """Run a trace spec (monitor or ImplSpec) over an ndjson trace.
        Convention (specs/TraceLib.tla): the spec prints
           <<"VF_HWM", hwm, len>>      highest line index consumed, number of lines
           <<"VF_VIOL", <<...>>>>      sequence of violation records [l |-> .., why |-> ..]
        Returns dict(accepted, hwm, total, viols[list of dict], out)."""
        r = self.tlc(module, cfg, workers=1, timeout=timeout, deadlock=False,
                     copy=[(trace_path, "trace.ndjson")] + list(extra_copy), name=name or ("val-" + module),
                     dfs=dfs, heap=heap)
        hwm = total = None
        for line in r.out.splitlines():
            m = re.match(r'<<"VF_HWM", (\d+), (\d+)>>', line)
            if m:
                hwm, total = int(m.group(1)), int(m.group(2))
        viols = self._vf_value(r.out, "VF_VIOL")
        drift = self._vf_value(r.out, "VF_DRIFT")
        if hwm is None and "Invariant NotDone is violated" in r.out:
            # search-based trace specs stop at the first complete explanation of the trace
            n = sum(1 for _ in open(trace_path))
            hwm, total = n, n
        if hwm is None:
            sys.stdout.write(r.out[-6000:])
            raise Inconclusive("trace validation %s produced no VF_HWM line" % module)
        accepted = (hwm >= total) and not viols
        return {"accepted": accepted, "hwm": hwm, "total": total, "viols": viols, "drift": drift, "out": r.out,
                "states": r.distinct, "wall": r.wall}

    @staticmethod
    def _vf_value(out, tag):
        m0 = re.search(r'^<<\s*"%s"' % tag, out, re.M)
        if not m0:
            return []
        tail = out[m0.start():]
        end = re.search(r"\n(<<\s*\"VF_|Model checking completed|Error:|Finished in|The depth|\d+ states generated|Progress)", tail)
        txt = tail[: end.start()] if end else tail
        from tlaval import parse as tla_parse
        try:
            val = tla_parse(txt.strip())
            return list(val[1]) if len(val) > 1 else []
        except Exception as ex:  # pragma: no cover
            raise Inconclusive("cannot parse %s output: %s\n%s" % (tag, ex, txt[:2000]))

    # ---------------------------------------------------------------- verdicts
    def save_replay(self, src_path, tag):
        os.makedirs(REPLAYS, exist_ok=True)
        dst = os.path.join(REPLAYS, "%s-%s-seed%d%s" % (self.prop, tag, self.seed, os.path.splitext(src_path)[1] or ".ndjson"))
        shutil.copyfile(src_path, dst)
        return dst

    def report(self, what, replay_src=None, tag="trace", key=None):
        """Report a monitor rejection. key: stable identifier matched against known-findings.txt."""
        k = key or what
        for kf in self.known:
            if kf["match"] in k:
                self.known_hits.append((kf, what))
                return False
        self.nviol = getattr(self, "nviol", 0) + 1
        if len(self.violations) >= 5:
            return True
        path = self.save_replay(replay_src, "%s%d" % (tag, self.nviol)) if replay_src else "-"
        self.violations.append((what, path))
        return True

    def note_drift(self, at, trace=None):
        self.drift.append(at)
        print("SPEC-DRIFT property=%s at=%s trace=%s" % (self.prop, at, trace or "-"), flush=True)

    def finish(self):
        wall = time.time() - self.t0
        seen = set()
        for kf, what in self.known_hits:
            if kf["match"] in seen:
                continue
            seen.add(kf["match"])
            print("KNOWN-FINDING: property=%s %s" % (self.prop, kf["text"]), flush=True)
        cov = dict(self.cov)
        if not cov.get("samples"):
            cov["samples"] = ["(none)"]
        cov["samples"] = cov["samples"][:12]
        cov["spec_drift"] = self.drift[:20]
        cov["known_findings_seen"] = sorted(seen)
        ev = {
            "property_id": self.prop,
            "tier": self.tier,
            "seed": self.seed,
            "level": self.level,
            "coverage": cov,
            "assumptions": self.assumptions,
            "wall_s": round(wall, 2),
            "violations": getattr(self, "nviol", 0),
        }
        with open(os.path.join(EVID, self.prop + ".json"), "w") as f:
            json.dump(ev, f, indent=1, sort_keys=True, default=str)
            f.write("\n")
        for what, path in self.violations:
            print("VIOLATION property=%s replay=%s  # %s" % (self.prop, path, what[:600]), flush=True)
        if getattr(self, "nviol", 0) > len(self.violations):
            print("(%d further violations not listed)" % (self.nviol - len(self.violations)), flush=True)
        self.log("done in %.1fs: %d violation(s), %d known finding(s), %d drift note(s)" % (
            wall, len(self.violations), len(seen), len(self.drift)))
        return 1 if self.violations else 0


def load_known(prop):
    res = []
    if not os.path.exists(KNOWN):
        return res
    for line in open(KNOWN):
        line = line.strip()
        if not line or line.startswith("#") or line.startswith("fixed:"):
            continue
        # finding: property=C07 match=<substring> :: text
        m = re.match(r"finding: property=(\S+) match=(.+?) :: (.*)$", line)
        if m and m.group(1) == prop:
            res.append({"match": m.group(2), "text": m.group(3)})
    return res


def read_ndjson(path):
    out = []
    with open(path) as f:
        for line in f:
            line = line.strip()
            if line:
                out.append(json.loads(line))
    return out


def write_ndjson(path, events):
    with open(path, "w") as f:
        for e in events:
            f.write(json.dumps(e, separators=(",", ":")) + "\n")
