------------------------------ MODULE DiskWatch ------------------------------
(* C18, part 3: the running guard (internal/pkg/controler/watchers/disk.go WatchDiskSpace).    *)
(* The decision itself is DiskGuard / DiskGuardMath; here it is the environment's variable      *)
(* `below` (what CheckDiskUsage would answer now).  One action per branch of the loop:          *)
(*   Tick      - ticker case: decide, Pause on the falling edge, Resume on the rising edge      *)
(*   WStop     - context cancelled: return at once, *without* resuming (the pipeline's Stop     *)
(*               wakes paused workers itself, Stop.tla / C03)                                   *)
(*   EnvChange - free space crosses the threshold between two ticks                             *)
(* pcount is the pause manager's view (Pause.tla): number of Pause calls not yet resumed.       *)
EXTENDS Integers

CONSTANTS EdgeTriggered   \* TRUE: the code (Pause only when not already paused by this watcher)
                          \* FALSE: negative configuration - Pause on every tick that finds the volume low

VARIABLES below, wpaused, pcount, running, lastDecision, ticks
wvars == <<below, wpaused, pcount, running, lastDecision, ticks>>

WInit == /\ below \in BOOLEAN /\ wpaused = FALSE /\ pcount = 0 /\ running = TRUE
         /\ lastDecision = FALSE /\ ticks = 0

EnvChange == /\ below' = ~below
             /\ UNCHANGED <<wpaused, pcount, running, lastDecision, ticks>>

Tick == /\ running
        /\ lastDecision' = below
        /\ ticks' = IF ticks < 3 THEN ticks + 1 ELSE ticks
        /\ IF below /\ (~wpaused \/ ~EdgeTriggered)
           THEN wpaused' = TRUE /\ pcount' = pcount + 1
           ELSE IF ~below /\ wpaused
           THEN wpaused' = FALSE /\ pcount' = pcount - 1
           ELSE UNCHANGED <<wpaused, pcount>>
        /\ UNCHANGED <<below, running>>

WStop == /\ running /\ running' = FALSE
         /\ UNCHANGED <<below, wpaused, pcount, lastDecision, ticks>>

WNext == EnvChange \/ Tick \/ WStop
WSpec == WInit /\ [][WNext]_wvars /\ WF_wvars(Tick)

\* the pause state is exactly the last decision (once a decision was taken)
WatchExact == ticks > 0 => (wpaused = lastDecision)
\* Pause and Resume calls are balanced: never a second Pause, never a Resume with nothing paused (C14)
PauseBalanced == pcount = (IF wpaused THEN 1 ELSE 0)
Bounded == pcount \in 0..1
\* while the guard runs, a volume that stays low is eventually paused and one that stays fine eventually resumed
Follows == /\ [](<>[](running /\ below) => <>(pcount = 1))
           /\ [](<>[](running /\ ~below) => <>(pcount = 0))
=============================================================================
