-------------------------------- MODULE Scope --------------------------------
(* C05: the scope decision of NormalizeURL + preprocess() as a function of abstract attributes of  *)
(* the URL a node carries, checked against the statement for every combination.                   *)
EXTENDS Integers, TLC

Positions == {"seed", "redirect", "asset"}
Schemes == {"http", "https", "other"}
HostClasses == {"dotted", "localhost", "loop127", "dotless"}

VARIABLES pos, scheme, host, anyIncH, anyIncS, incH, incS, exH, exS, exR, emptyPath
vars == <<pos, scheme, host, anyIncH, anyIncS, incH, incS, exH, exS, exR, emptyPath>>

Init == /\ pos \in Positions /\ scheme \in Schemes /\ host \in HostClasses
        /\ anyIncH \in BOOLEAN /\ anyIncS \in BOOLEAN
        /\ incH \in BOOLEAN /\ incS \in BOOLEAN
        /\ exH \in BOOLEAN /\ exS \in BOOLEAN /\ exR \in BOOLEAN /\ emptyPath \in BOOLEAN
        /\ (incH => anyIncH) /\ (incS => anyIncS)
Next == UNCHANGED vars
Spec == Init /\ [][Next]_vars

\* the statement
InScope == /\ scheme \in {"http", "https"}
           /\ host = "dotted"
           /\ ~(exH \/ exS \/ exR)
           /\ ((anyIncH \/ anyIncS) => (incH \/ incS))

\* the code: outcome of preprocess() for this node
Outcome ==
  IF scheme \notin {"http", "https"} \/ host # "dotted"
  THEN (IF pos = "seed" THEN "seed-failed" ELSE "removed")          \* NormalizeURL error
  ELSE IF (anyIncH \/ anyIncS) /\ ~incH /\ ~incS
  THEN (IF pos = "seed" THEN "seed-completed" ELSE "removed")
  ELSE IF exH \/ exS \/ exR
  THEN (IF pos = "seed" THEN "seed-completed" ELSE "removed")
  ELSE IF pos = "asset" /\ emptyPath THEN "removed"
  ELSE "request"

NoRequestOutOfScope == Outcome = "request" => InScope
=============================================================================
