---------------------------- MODULE TraceLib ----------------------------
(* Helpers shared by every trace specification (monitors and ImplSpec trace specs).          *)
(* The recorded execution is trace.ndjson next to the spec (one JSON object per line).       *)
(* Register 1 = high-water mark of the line index reached, register 2 = violation records.   *)
(* Both are printed from the POSTCONDITION; bin/check parses the two VF_ lines.               *)
EXTENDS Naturals, Sequences, TLC, Json

TraceLog == ndJsonDeserialize("trace.ndjson")
TraceLen == Len(TraceLog)

ASSUME TLCSet(1, 1) /\ TLCSet(2, <<>>) /\ TLCSet(3, <<>>)

MaxViol == 40

\* record that line l was reached (call from a CONSTRAINT; needs -workers 1)
Mark(l) == IF l > TLCGet(1) THEN TLCSet(1, l) ELSE TRUE

\* record a violation (keeps the first MaxViol)
Viol(l, why) == IF Len(TLCGet(2)) < MaxViol
                THEN TLCSet(2, Append(TLCGet(2), [l |-> l, why |-> why]))
                ELSE TRUE

\* Check(cond, l, why): TRUE always; records a violation when cond is false
Check(cond, l, why) == IF cond THEN TRUE ELSE Viol(l, why)

\* record the line at which an ImplSpec trace spec lost synchronisation (uncapped)
Drift(l, why) == TLCSet(3, Append(TLCGet(3), [l |-> l, why |-> why]))

Post == /\ PrintT(<<"VF_HWM", TLCGet(1) - 1, TraceLen>>)
        /\ PrintT(<<"VF_VIOL", TLCGet(2)>>)
        /\ PrintT(<<"VF_DRIFT", TLCGet(3)>>)

HasKey(e, k) == k \in DOMAIN e
=============================================================================
