------------------------------ MODULE Requisites ------------------------------
(* C07: which planted references of an HTML page must be fetched as assets / queued as outlinks,   *)
(* as a function of the reference's class and the configuration - the statement (Required) against  *)
(* the extraction rules of HTMLAssets / HTMLOutlinks / postprocessItem (Extracts).  TLC enumerates   *)
(* every class; the enumeration is also the coverage skeleton for the generated documents.          *)
EXTENDS Integers, FiniteSets, TLC

Refs == { <<"img", "src">>, <<"img", "srcset">>, <<"script", "src">>, <<"link", "href">>, <<"source", "src">>,
          <<"source", "srcset">>, <<"video", "src">>, <<"audio", "src">>, <<"style", "url">>, <<"styleattr", "url">>,
          <<"a", "href">> }
Rels == {"", "stylesheet", "icon", "preload", "alternate"}

VARIABLES ref, rel, tagDisabled, captureAlt, disableAssets, hopsAllow, fixOutlinks
vars == <<ref, rel, tagDisabled, captureAlt, disableAssets, hopsAllow, fixOutlinks>>

Init == /\ ref \in Refs /\ rel \in Rels /\ (rel # "" => ref = <<"link", "href">>) /\ (ref = <<"link", "href">> => rel # "")
        /\ tagDisabled \in BOOLEAN /\ captureAlt \in BOOLEAN /\ disableAssets \in BOOLEAN /\ hopsAllow \in BOOLEAN
        /\ (ref[1] = "styleattr" => ~tagDisabled)          \* a style attribute has no tag of its own to disable
        /\ fixOutlinks = TRUE
Next == UNCHANGED vars
Spec == Init /\ [][Next]_vars

IsOutlink == ref = <<"a", "href">>
\* the statement
Required == IF IsOutlink THEN hopsAllow /\ ~tagDisabled
            ELSE ~disableAssets /\ ~tagDisabled /\ (rel = "alternate" => captureAlt)
\* the code
Extracts == IF IsOutlink
            THEN hopsAllow /\ ~tagDisabled /\ (fixOutlinks \/ ~disableAssets)   \* pinned commit: no outlinks at all with --disable-assets-capture
            ELSE ~disableAssets /\ ~tagDisabled /\ (rel = "alternate" => captureAlt)
Complete == Required => Extracts
=============================================================================
