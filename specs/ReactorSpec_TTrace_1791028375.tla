---- MODULE ReactorSpec_TTrace_1791028375 ----
EXTENDS Sequences, TLCExt, Toolbox, Naturals, TLC, ReactorSpec

_expression ==
    LET ReactorSpec_TEExpression == INSTANCE ReactorSpec_TEExpression
    IN ReactorSpec_TEExpression!expression
----

_trace ==
    LET ReactorSpec_TETrace == INSTANCE ReactorSpec_TETrace
    IN ReactorSpec_TETrace!trace
----

_inv ==
    ~(
        TLCGet("level") = Len(_TETrace)
        /\
        op = ([c1 |-> [kind |-> "feedback", id |-> "s1"], c2 |-> [kind |-> "insert", id |-> "s2"]])
        /\
        res = ([c1 |-> "none", c2 |-> "nil"])
        /\
        runpc = ([id |-> "none", st |-> "idle"])
        /\
        answered = ([s1 |-> 1, s2 |-> 0, s3 |-> 0, ghost |-> 0])
        /\
        frozen = (FALSE)
        /\
        delivered = (<<"s1">>)
        /\
        used = ({"s1", "s2"})
        /\
        input = (<<"s2">>)
        /\
        pc = ([c1 |-> "fb.sel", c2 |-> "ret"])
        /\
        left = ([c1 |-> 1, c2 |-> 2])
        /\
        inputClosed = (FALSE)
        /\
        crashed = (FALSE)
        /\
        tokens = (2)
        /\
        after = ([c1 |-> FALSE, c2 |-> FALSE])
        /\
        table = ({"s1", "s2"})
        /\
        frzRet = (FALSE)
        /\
        ctxDone = (FALSE)
    )
----

_init ==
    /\ runpc = _TETrace[1].runpc
    /\ ctxDone = _TETrace[1].ctxDone
    /\ delivered = _TETrace[1].delivered
    /\ op = _TETrace[1].op
    /\ pc = _TETrace[1].pc
    /\ frozen = _TETrace[1].frozen
    /\ res = _TETrace[1].res
    /\ input = _TETrace[1].input
    /\ left = _TETrace[1].left
    /\ table = _TETrace[1].table
    /\ used = _TETrace[1].used
    /\ frzRet = _TETrace[1].frzRet
    /\ crashed = _TETrace[1].crashed
    /\ after = _TETrace[1].after
    /\ answered = _TETrace[1].answered
    /\ tokens = _TETrace[1].tokens
    /\ inputClosed = _TETrace[1].inputClosed
----

_next ==
    /\ \E i,j \in DOMAIN _TETrace:
        /\ \/ /\ j = i + 1
              /\ i = TLCGet("level")
        /\ runpc  = _TETrace[i].runpc
        /\ runpc' = _TETrace[j].runpc
        /\ ctxDone  = _TETrace[i].ctxDone
        /\ ctxDone' = _TETrace[j].ctxDone
        /\ delivered  = _TETrace[i].delivered
        /\ delivered' = _TETrace[j].delivered
        /\ op  = _TETrace[i].op
        /\ op' = _TETrace[j].op
        /\ pc  = _TETrace[i].pc
        /\ pc' = _TETrace[j].pc
        /\ frozen  = _TETrace[i].frozen
        /\ frozen' = _TETrace[j].frozen
        /\ res  = _TETrace[i].res
        /\ res' = _TETrace[j].res
        /\ input  = _TETrace[i].input
        /\ input' = _TETrace[j].input
        /\ left  = _TETrace[i].left
        /\ left' = _TETrace[j].left
        /\ table  = _TETrace[i].table
        /\ table' = _TETrace[j].table
        /\ used  = _TETrace[i].used
        /\ used' = _TETrace[j].used
        /\ frzRet  = _TETrace[i].frzRet
        /\ frzRet' = _TETrace[j].frzRet
        /\ crashed  = _TETrace[i].crashed
        /\ crashed' = _TETrace[j].crashed
        /\ after  = _TETrace[i].after
        /\ after' = _TETrace[j].after
        /\ answered  = _TETrace[i].answered
        /\ answered' = _TETrace[j].answered
        /\ tokens  = _TETrace[i].tokens
        /\ tokens' = _TETrace[j].tokens
        /\ inputClosed  = _TETrace[i].inputClosed
        /\ inputClosed' = _TETrace[j].inputClosed

\* Uncomment the ASSUME below to write the states of the error trace
\* to the given file in Json format. Note that you can pass any tuple
\* to `JsonSerialize`. For example, a sub-sequence of _TETrace.
    \* ASSUME
    \*     LET J == INSTANCE Json
    \*         IN J!JsonSerialize("ReactorSpec_TTrace_1791028375.json", _TETrace)

=============================================================================

 Note that you can extract this module `ReactorSpec_TEExpression`
  to a dedicated file to reuse `expression` (the module in the 
  dedicated `ReactorSpec_TEExpression.tla` file takes precedence 
  over the module `ReactorSpec_TEExpression` below).

---- MODULE ReactorSpec_TEExpression ----
EXTENDS Sequences, TLCExt, Toolbox, Naturals, TLC, ReactorSpec

expression == 
    [
        \* To hide variables of the `ReactorSpec` spec from the error trace,
        \* remove the variables below.  The trace will be written in the order
        \* of the fields of this record.
        runpc |-> runpc
        ,ctxDone |-> ctxDone
        ,delivered |-> delivered
        ,op |-> op
        ,pc |-> pc
        ,frozen |-> frozen
        ,res |-> res
        ,input |-> input
        ,left |-> left
        ,table |-> table
        ,used |-> used
        ,frzRet |-> frzRet
        ,crashed |-> crashed
        ,after |-> after
        ,answered |-> answered
        ,tokens |-> tokens
        ,inputClosed |-> inputClosed
        
        \* Put additional constant-, state-, and action-level expressions here:
        \* ,_stateNumber |-> _TEPosition
        \* ,_runpcUnchanged |-> runpc = runpc'
        
        \* Format the `runpc` variable as Json value.
        \* ,_runpcJson |->
        \*     LET J == INSTANCE Json
        \*     IN J!ToJson(runpc)
        
        \* Lastly, you may build expressions over arbitrary sets of states by
        \* leveraging the _TETrace operator.  For example, this is how to
        \* count the number of times a spec variable changed up to the current
        \* state in the trace.
        \* ,_runpcModCount |->
        \*     LET F[s \in DOMAIN _TETrace] ==
        \*         IF s = 1 THEN 0
        \*         ELSE IF _TETrace[s].runpc # _TETrace[s-1].runpc
        \*             THEN 1 + F[s-1] ELSE F[s-1]
        \*     IN F[_TEPosition - 1]
    ]

=============================================================================



Parsing and semantic processing can take forever if the trace below is long.
 In this case, it is advised to uncomment the module below to deserialize the
 trace from a generated binary file.

\*
\*---- MODULE ReactorSpec_TETrace ----
\*EXTENDS IOUtils, TLC, ReactorSpec
\*
\*trace == IODeserialize("ReactorSpec_TTrace_1791028375.bin", TRUE)
\*
\*=============================================================================
\*

---- MODULE ReactorSpec_TETrace ----
EXTENDS TLC, ReactorSpec

trace == 
    <<
    ([op |-> [c1 |-> [kind |-> "none", id |-> "none"], c2 |-> [kind |-> "none", id |-> "none"]],res |-> [c1 |-> "none", c2 |-> "none"],runpc |-> [id |-> "none", st |-> "idle"],answered |-> [s1 |-> 0, s2 |-> 0, s3 |-> 0, ghost |-> 0],frozen |-> FALSE,delivered |-> <<>>,used |-> {},input |-> <<>>,pc |-> [c1 |-> "idle", c2 |-> "idle"],left |-> [c1 |-> 3, c2 |-> 3],inputClosed |-> FALSE,crashed |-> FALSE,tokens |-> 0,after |-> [c1 |-> FALSE, c2 |-> FALSE],table |-> {},frzRet |-> FALSE,ctxDone |-> FALSE]),
    ([op |-> [c1 |-> [kind |-> "insert", id |-> "s1"], c2 |-> [kind |-> "none", id |-> "none"]],res |-> [c1 |-> "none", c2 |-> "none"],runpc |-> [id |-> "none", st |-> "idle"],answered |-> [s1 |-> 0, s2 |-> 0, s3 |-> 0, ghost |-> 0],frozen |-> FALSE,delivered |-> <<>>,used |-> {"s1"},input |-> <<>>,pc |-> [c1 |-> "ins.pre", c2 |-> "idle"],left |-> [c1 |-> 2, c2 |-> 3],inputClosed |-> FALSE,crashed |-> FALSE,tokens |-> 0,after |-> [c1 |-> FALSE, c2 |-> FALSE],table |-> {},frzRet |-> FALSE,ctxDone |-> FALSE]),
    ([op |-> [c1 |-> [kind |-> "insert", id |-> "s1"], c2 |-> [kind |-> "insert", id |-> "s2"]],res |-> [c1 |-> "none", c2 |-> "none"],runpc |-> [id |-> "none", st |-> "idle"],answered |-> [s1 |-> 0, s2 |-> 0, s3 |-> 0, ghost |-> 0],frozen |-> FALSE,delivered |-> <<>>,used |-> {"s1", "s2"},input |-> <<>>,pc |-> [c1 |-> "ins.pre", c2 |-> "ins.pre"],left |-> [c1 |-> 2, c2 |-> 2],inputClosed |-> FALSE,crashed |-> FALSE,tokens |-> 0,after |-> [c1 |-> FALSE, c2 |-> FALSE],table |-> {},frzRet |-> FALSE,ctxDone |-> FALSE]),
    ([op |-> [c1 |-> [kind |-> "insert", id |-> "s1"], c2 |-> [kind |-> "insert", id |-> "s2"]],res |-> [c1 |-> "none", c2 |-> "none"],runpc |-> [id |-> "none", st |-> "idle"],answered |-> [s1 |-> 0, s2 |-> 0, s3 |-> 0, ghost |-> 0],frozen |-> FALSE,delivered |-> <<>>,used |-> {"s1", "s2"},input |-> <<>>,pc |-> [c1 |-> "ins.pre", c2 |-> "ins.sel"],left |-> [c1 |-> 2, c2 |-> 2],inputClosed |-> FALSE,crashed |-> FALSE,tokens |-> 0,after |-> [c1 |-> FALSE, c2 |-> FALSE],table |-> {},frzRet |-> FALSE,ctxDone |-> FALSE]),
    ([op |-> [c1 |-> [kind |-> "insert", id |-> "s1"], c2 |-> [kind |-> "insert", id |-> "s2"]],res |-> [c1 |-> "none", c2 |-> "none"],runpc |-> [id |-> "none", st |-> "idle"],answered |-> [s1 |-> 0, s2 |-> 0, s3 |-> 0, ghost |-> 0],frozen |-> FALSE,delivered |-> <<>>,used |-> {"s1", "s2"},input |-> <<>>,pc |-> [c1 |-> "ins.pre", c2 |-> "ins.store"],left |-> [c1 |-> 2, c2 |-> 2],inputClosed |-> FALSE,crashed |-> FALSE,tokens |-> 1,after |-> [c1 |-> FALSE, c2 |-> FALSE],table |-> {},frzRet |-> FALSE,ctxDone |-> FALSE]),
    ([op |-> [c1 |-> [kind |-> "insert", id |-> "s1"], c2 |-> [kind |-> "insert", id |-> "s2"]],res |-> [c1 |-> "none", c2 |-> "none"],runpc |-> [id |-> "none", st |-> "idle"],answered |-> [s1 |-> 0, s2 |-> 0, s3 |-> 0, ghost |-> 0],frozen |-> FALSE,delivered |-> <<>>,used |-> {"s1", "s2"},input |-> <<>>,pc |-> [c1 |-> "ins.pre", c2 |-> "ins.send"],left |-> [c1 |-> 2, c2 |-> 2],inputClosed |-> FALSE,crashed |-> FALSE,tokens |-> 1,after |-> [c1 |-> FALSE, c2 |-> FALSE],table |-> {"s2"},frzRet |-> FALSE,ctxDone |-> FALSE]),
    ([op |-> [c1 |-> [kind |-> "insert", id |-> "s1"], c2 |-> [kind |-> "insert", id |-> "s2"]],res |-> [c1 |-> "none", c2 |-> "none"],runpc |-> [id |-> "none", st |-> "idle"],answered |-> [s1 |-> 0, s2 |-> 0, s3 |-> 0, ghost |-> 0],frozen |-> FALSE,delivered |-> <<>>,used |-> {"s1", "s2"},input |-> <<>>,pc |-> [c1 |-> "ins.sel", c2 |-> "ins.send"],left |-> [c1 |-> 2, c2 |-> 2],inputClosed |-> FALSE,crashed |-> FALSE,tokens |-> 1,after |-> [c1 |-> FALSE, c2 |-> FALSE],table |-> {"s2"},frzRet |-> FALSE,ctxDone |-> FALSE]),
    ([op |-> [c1 |-> [kind |-> "insert", id |-> "s1"], c2 |-> [kind |-> "insert", id |-> "s2"]],res |-> [c1 |-> "none", c2 |-> "none"],runpc |-> [id |-> "none", st |-> "idle"],answered |-> [s1 |-> 0, s2 |-> 0, s3 |-> 0, ghost |-> 0],frozen |-> FALSE,delivered |-> <<>>,used |-> {"s1", "s2"},input |-> <<>>,pc |-> [c1 |-> "ins.store", c2 |-> "ins.send"],left |-> [c1 |-> 2, c2 |-> 2],inputClosed |-> FALSE,crashed |-> FALSE,tokens |-> 2,after |-> [c1 |-> FALSE, c2 |-> FALSE],table |-> {"s2"},frzRet |-> FALSE,ctxDone |-> FALSE]),
    ([op |-> [c1 |-> [kind |-> "insert", id |-> "s1"], c2 |-> [kind |-> "insert", id |-> "s2"]],res |-> [c1 |-> "none", c2 |-> "none"],runpc |-> [id |-> "none", st |-> "idle"],answered |-> [s1 |-> 0, s2 |-> 0, s3 |-> 0, ghost |-> 0],frozen |-> FALSE,delivered |-> <<>>,used |-> {"s1", "s2"},input |-> <<>>,pc |-> [c1 |-> "ins.send", c2 |-> "ins.send"],left |-> [c1 |-> 2, c2 |-> 2],inputClosed |-> FALSE,crashed |-> FALSE,tokens |-> 2,after |-> [c1 |-> FALSE, c2 |-> FALSE],table |-> {"s1", "s2"},frzRet |-> FALSE,ctxDone |-> FALSE]),
    ([op |-> [c1 |-> [kind |-> "insert", id |-> "s1"], c2 |-> [kind |-> "insert", id |-> "s2"]],res |-> [c1 |-> "nil", c2 |-> "none"],runpc |-> [id |-> "none", st |-> "idle"],answered |-> [s1 |-> 0, s2 |-> 0, s3 |-> 0, ghost |-> 0],frozen |-> FALSE,delivered |-> <<>>,used |-> {"s1", "s2"},input |-> <<"s1">>,pc |-> [c1 |-> "ret", c2 |-> "ins.send"],left |-> [c1 |-> 2, c2 |-> 2],inputClosed |-> FALSE,crashed |-> FALSE,tokens |-> 2,after |-> [c1 |-> FALSE, c2 |-> FALSE],table |-> {"s1", "s2"},frzRet |-> FALSE,ctxDone |-> FALSE]),
    ([op |-> [c1 |-> [kind |-> "insert", id |-> "s1"], c2 |-> [kind |-> "insert", id |-> "s2"]],res |-> [c1 |-> "nil", c2 |-> "none"],runpc |-> [id |-> "s1", st |-> "hold"],answered |-> [s1 |-> 0, s2 |-> 0, s3 |-> 0, ghost |-> 0],frozen |-> FALSE,delivered |-> <<>>,used |-> {"s1", "s2"},input |-> <<>>,pc |-> [c1 |-> "ret", c2 |-> "ins.send"],left |-> [c1 |-> 2, c2 |-> 2],inputClosed |-> FALSE,crashed |-> FALSE,tokens |-> 2,after |-> [c1 |-> FALSE, c2 |-> FALSE],table |-> {"s1", "s2"},frzRet |-> FALSE,ctxDone |-> FALSE]),
    ([op |-> [c1 |-> [kind |-> "insert", id |-> "s1"], c2 |-> [kind |-> "insert", id |-> "s2"]],res |-> [c1 |-> "nil", c2 |-> "none"],runpc |-> [id |-> "none", st |-> "idle"],answered |-> [s1 |-> 0, s2 |-> 0, s3 |-> 0, ghost |-> 0],frozen |-> FALSE,delivered |-> <<"s1">>,used |-> {"s1", "s2"},input |-> <<>>,pc |-> [c1 |-> "ret", c2 |-> "ins.send"],left |-> [c1 |-> 2, c2 |-> 2],inputClosed |-> FALSE,crashed |-> FALSE,tokens |-> 2,after |-> [c1 |-> FALSE, c2 |-> FALSE],table |-> {"s1", "s2"},frzRet |-> FALSE,ctxDone |-> FALSE]),
    ([op |-> [c1 |-> [kind |-> "insert", id |-> "s1"], c2 |-> [kind |-> "insert", id |-> "s2"]],res |-> [c1 |-> "nil", c2 |-> "none"],runpc |-> [id |-> "none", st |-> "idle"],answered |-> [s1 |-> 0, s2 |-> 0, s3 |-> 0, ghost |-> 0],frozen |-> FALSE,delivered |-> <<"s1">>,used |-> {"s1", "s2"},input |-> <<>>,pc |-> [c1 |-> "idle", c2 |-> "ins.send"],left |-> [c1 |-> 2, c2 |-> 2],inputClosed |-> FALSE,crashed |-> FALSE,tokens |-> 2,after |-> [c1 |-> FALSE, c2 |-> FALSE],table |-> {"s1", "s2"},frzRet |-> FALSE,ctxDone |-> FALSE]),
    ([op |-> [c1 |-> [kind |-> "feedback", id |-> "s1"], c2 |-> [kind |-> "insert", id |-> "s2"]],res |-> [c1 |-> "none", c2 |-> "none"],runpc |-> [id |-> "none", st |-> "idle"],answered |-> [s1 |-> 1, s2 |-> 0, s3 |-> 0, ghost |-> 0],frozen |-> FALSE,delivered |-> <<"s1">>,used |-> {"s1", "s2"},input |-> <<>>,pc |-> [c1 |-> "fb.pre", c2 |-> "ins.send"],left |-> [c1 |-> 1, c2 |-> 2],inputClosed |-> FALSE,crashed |-> FALSE,tokens |-> 2,after |-> [c1 |-> FALSE, c2 |-> FALSE],table |-> {"s1", "s2"},frzRet |-> FALSE,ctxDone |-> FALSE]),
    ([op |-> [c1 |-> [kind |-> "feedback", id |-> "s1"], c2 |-> [kind |-> "insert", id |-> "s2"]],res |-> [c1 |-> "none", c2 |-> "none"],runpc |-> [id |-> "none", st |-> "idle"],answered |-> [s1 |-> 1, s2 |-> 0, s3 |-> 0, ghost |-> 0],frozen |-> FALSE,delivered |-> <<"s1">>,used |-> {"s1", "s2"},input |-> <<>>,pc |-> [c1 |-> "fb.swap", c2 |-> "ins.send"],left |-> [c1 |-> 1, c2 |-> 2],inputClosed |-> FALSE,crashed |-> FALSE,tokens |-> 2,after |-> [c1 |-> FALSE, c2 |-> FALSE],table |-> {"s1", "s2"},frzRet |-> FALSE,ctxDone |-> FALSE]),
    ([op |-> [c1 |-> [kind |-> "feedback", id |-> "s1"], c2 |-> [kind |-> "insert", id |-> "s2"]],res |-> [c1 |-> "none", c2 |-> "none"],runpc |-> [id |-> "none", st |-> "idle"],answered |-> [s1 |-> 1, s2 |-> 0, s3 |-> 0, ghost |-> 0],frozen |-> FALSE,delivered |-> <<"s1">>,used |-> {"s1", "s2"},input |-> <<>>,pc |-> [c1 |-> "fb.sel", c2 |-> "ins.send"],left |-> [c1 |-> 1, c2 |-> 2],inputClosed |-> FALSE,crashed |-> FALSE,tokens |-> 2,after |-> [c1 |-> FALSE, c2 |-> FALSE],table |-> {"s1", "s2"},frzRet |-> FALSE,ctxDone |-> FALSE]),
    ([op |-> [c1 |-> [kind |-> "feedback", id |-> "s1"], c2 |-> [kind |-> "insert", id |-> "s2"]],res |-> [c1 |-> "none", c2 |-> "nil"],runpc |-> [id |-> "none", st |-> "idle"],answered |-> [s1 |-> 1, s2 |-> 0, s3 |-> 0, ghost |-> 0],frozen |-> FALSE,delivered |-> <<"s1">>,used |-> {"s1", "s2"},input |-> <<"s2">>,pc |-> [c1 |-> "fb.sel", c2 |-> "ret"],left |-> [c1 |-> 1, c2 |-> 2],inputClosed |-> FALSE,crashed |-> FALSE,tokens |-> 2,after |-> [c1 |-> FALSE, c2 |-> FALSE],table |-> {"s1", "s2"},frzRet |-> FALSE,ctxDone |-> FALSE])
    >>
----


=============================================================================

---- CONFIG ReactorSpec_TTrace_1791028375 ----
CONSTANTS
    Max = 2
    InputCap = 1
    Ids = { "s1" , "s2" , "s3" , "ghost" }
    Callers = { "c1" , "c2" }
    Budget = 3
    FixFreeze = TRUE
    FixFeedback = TRUE

INVARIANT
    _inv

CHECK_DEADLOCK
    \* CHECK_DEADLOCK off because of PROPERTY or INVARIANT above.
    FALSE

INIT
    _init

NEXT
    _next

CONSTANT
    _TETrace <- _trace

ALIAS
    _expression
=============================================================================
\* Generated on Sat Oct 03 11:52:59 UTC 2026