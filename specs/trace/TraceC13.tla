------------------------------ MODULE TraceC13 ------------------------------
(* ImplSpec trace validation for C13: the bucket fields logged after every operation of the real *)
(* tokenBucket must be what RateLimiter's actions compute from the previously logged fields,     *)
(* within the rounding tolerance of the micro-unit log (the code uses float64).                  *)
EXTENDS Integers, Sequences, TraceLib

CONSTANTS FixOverflow, FixFloor
VARIABLES l, p, tol   \* p: previous event of the same bucket (scenarios are logged one after another)
vars == <<l, p, tol>>

M == 1000000
Min(a, b) == IF a < b THEN a ELSE b
Max(a, b) == IF a > b THEN a ELSE b
Abs(x) == IF x < 0 THEN 0 - x ELSE x
Pow2(n) == IF n <= 0 THEN 1 ELSE IF n >= 20 THEN 1048576 ELSE 2 ^ n
Near(a, b, eps) == Abs(a - b) <= eps

CodePenaltyOK(k, t, pen) == IF ~FixOverflow /\ k >= 32 THEN pen < t
                            ELSE pen = t + (IF k >= 4 THEN 30000 ELSE 5000 * Pow2(k - 1))
CodeFloor(ideal) == IF FixFloor THEN Min(500000, ideal) ELSE 500000

Init == l = 1 /\ p = [op |-> "none"] /\ tol = 1

\* refill at time t from the previous fields: tokens after refill (before a take)
Refilled(t) ==
  IF t < p.pen THEN p.tokens
  ELSE LET base == Max(p.lr, p.pen)
           el == t - base
       IN IF el > 0 THEN Min(p.cap * M, p.tokens + el * p.ratem) ELSE p.tokens

Conforms(e) ==
  CASE e.op = "new" -> e.tokens = e.cap * M /\ e.rate = e.ideal /\ e.fc = 0
    [] e.op = "take" ->
         LET dt == e.t - Max(p.lr, p.pen) IN
         /\ Near(e.tokens, Refilled(e.t) - M, 2 + tol + (IF dt > 0 THEN dt ELSE 0))
         /\ e.rate = p.rate /\ e.fc = p.fc /\ e.pen = p.pen
    [] e.op = "fail" ->
         IF e.code \in {429, 403, 408, 425}
         THEN e.fc = p.fc + 1 /\ e.tokens = 0 /\ e.rate = p.rate /\ CodePenaltyOK(e.fc, e.t, e.pen)
         ELSE IF e.code >= 500
         THEN /\ e.fc = p.fc + 1 /\ e.tokens = 0 /\ e.pen = p.pen
              /\ Near(e.rate, Max(p.rate \div Pow2(e.fc), CodeFloor(e.ideal)), 2)
         ELSE e.fc = p.fc /\ e.tokens = p.tokens /\ e.rate = p.rate /\ e.pen = p.pen
    [] e.op = "succ" ->
         IF e.t > p.pen
         THEN /\ Near(e.rate, IF p.rate < e.ideal THEN Min(e.ideal, p.rate + (e.ideal - p.rate) \div 10) ELSE p.rate, 2)
              /\ e.fc = (IF p.fc > 0 THEN p.fc - 1 ELSE 0)
              /\ e.tokens = p.tokens /\ e.pen = p.pen
         ELSE e.rate = p.rate /\ e.fc = p.fc /\ e.tokens = p.tokens /\ e.pen = p.pen

Next == /\ l <= TraceLen
        /\ LET e == TraceLog[l] IN
           /\ IF Conforms(e) THEN TRUE ELSE Drift(l, e.op)
           /\ p' = e
           /\ tol' = IF e.op = "new" THEN e.tol ELSE tol
        /\ l' = l + 1

Spec == Init /\ [][Next]_vars
Marked == Mark(l)
=============================================================================
