------------------------------ MODULE TraceC18 ------------------------------
(* ImplSpec trace validation for C18's running guard: every recorded tick of the real           *)
(* WatchDiskSpace ("watch": below = what CheckDiskUsage answered, flag = the watcher's own       *)
(* `paused`, paused = pause.IsPaused() read in the same tick) must be DiskWatch's Tick action    *)
(* from the state the previous ticks left, with a silent EnvChange in between when the volume's  *)
(* state differs from the last one seen.  Other events are skipped.                              *)
EXTENDS DiskWatch, TraceLib

VARIABLES l
vars == <<wvars, l>>

Init == WInit /\ l = 1

Next == /\ l <= TraceLen
        /\ LET e == TraceLog[l] IN
           IF e.ev # "watch" THEN l' = l + 1 /\ UNCHANGED wvars
           ELSE IF below # e.below THEN EnvChange /\ UNCHANGED l
           ELSE /\ Tick
                /\ l' = l + 1
                /\ IF wpaused' = e.flag /\ ((pcount' = 1) = e.paused) /\ pcount' \in 0..1
                   THEN TRUE ELSE Drift(l, "tick")

Spec == Init /\ [][Next]_vars
Marked == Mark(l)
=============================================================================
