------------------------------ MODULE TraceC12 ------------------------------
(* ImplSpec trace validation for C12: a recorded concurrent history of the real reactor must be   *)
(* a behaviour of Reactor.tla.  Only call / ret / out / snap events are logged (the reactor is     *)
(* lock free, its internal steps cannot be ordered from outside), so TLC interleaves the internal *)
(* steps itself: Silent = any internal action of the model, Consume = the next logged event.      *)
EXTENDS Reactor, TraceLib

VARIABLES l, nout
vars == <<rvars, l, nout>>

SeqToSet(s) == {s[i] : i \in 1..Len(s)}

Init == RInit /\ l = 1 /\ nout = 0

Reset == /\ tokens' = 0 /\ table' = {} /\ input' = <<>> /\ delivered' = <<>>
         /\ ctxDone' = FALSE /\ frozen' = FALSE /\ inputClosed' = FALSE /\ crashed' = FALSE
         /\ runpc' = [st |-> "idle", id |-> "none"]
         /\ pc' = [c \in Callers |-> "idle"] /\ op' = [c \in Callers |-> NoOp] /\ res' = [c \in Callers |-> "none"]
         /\ nout' = 0

Consume ==
  /\ l <= TraceLen
  /\ LET e == TraceLog[l] IN
     CASE e.ev = "start" -> Reset
       [] e.ev = "call" ->
            /\ IF inputClosed
               THEN /\ pc[e.c] = "idle" /\ Return(e.c, "notinit")
                    /\ op' = [op EXCEPT ![e.c] = [kind |-> e.op, id |-> e.id]]
                    /\ UNCHANGED <<tokens, table, input, delivered, ctxDone, frozen, inputClosed, crashed, runpc>>
               ELSE Call(e.c, e.op, e.id)
            /\ UNCHANGED nout
       [] e.ev = "ret" -> pc[e.c] = "ret" /\ res[e.c] = e.res /\ Done(e.c) /\ UNCHANGED nout
       [] e.ev = "out" -> /\ Len(delivered) > nout /\ delivered[nout + 1] = e.id
                          /\ nout' = nout + 1 /\ UNCHANGED rvars
       [] e.ev = "snap" -> /\ \A c \in Callers : pc[c] = "idle"
                           /\ SeqToSet(e.table) = table /\ e.tokens = tokens
                           /\ UNCHANGED <<rvars, nout>>
       [] e.ev \in {"stuck", "abort"} -> FALSE
  /\ l' = l + 1

Silent == Internal /\ UNCHANGED <<l, nout>>
Next == Consume \/ Silent
Spec == Init /\ [][Next]_vars
Marked == Mark(l)
=============================================================================
