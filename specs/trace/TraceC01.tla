------------------------------ MODULE TraceC01 ------------------------------
(* ImplSpec trace validation for C01: the stage events of a real pipeline run must be a behaviour  *)
(* of Zeno.tla.  Logged: <stage>.take (seed, worker), fin.feedback / fin.finish (seed, worker),     *)
(* lq.finish.recv (seed), quiescent (state table).  Not logged (interleaved by TLC): the reactor's  *)
(* insert / run steps, channel sends between stages, the finisher's receive.  Channel order is not  *)
(* bound (hooks fire after the receive, so two workers may log in the opposite order).             *)
EXTENDS Zeno, TraceLib

VARIABLES l, pend, marked      \* marked[w]: the finisher worker has done MarkAsFinished but its finish event is not logged yet
tvars == <<vars, l, pend, marked>>   \* pend: seeds the consumer has taken from its buffer and is inserting, in order

WorkerOf(w) == IF w = "0" THEN 1 ELSE IF w = "1" THEN 2 ELSE IF w = "2" THEN 3 ELSE 4
RECURSIVE RemoveOne(_, _)
RemoveOne(s, x) == IF s = <<>> THEN <<>> ELSE IF Head(s) = x THEN Tail(s) ELSE <<Head(s)>> \o RemoveOne(Tail(s), x)
InSeq(s, x) == \E i \in 1..Len(s) : s[i] = x

TInit == Init /\ l = 1 /\ pend = <<>> /\ marked = [w \in Workers |-> FALSE]

\* a worker received seed id from its stage's channel (any position)
TTake(st, w, id) == /\ hand[st][w] = "none" /\ InSeq(chan[st], id)
                    /\ hand' = [hand EXCEPT ![st][w] = id]
                    /\ chan' = [chan EXCEPT ![st] = RemoveOne(@, id)]
                    /\ UNCHANGED <<queue, tokens, table, input, runHold, passes, complete, finMsgs, outlinks>>

\* a seed the consumer could not even parse goes straight from the queue to the finish channel
DirectFinish(id) == /\ id \in queue /\ queue' = queue \ {id} /\ finMsgs' = Append(finMsgs, id)
                    /\ UNCHANGED <<tokens, table, input, runHold, chan, hand, passes, complete, outlinks>>

Consume ==
  /\ l <= TraceLen
  /\ LET e == TraceLog[l] IN
     CASE e.ev \in {"pre.take", "arch.take", "post.take"} ->
            TTake(CASE e.ev = "pre.take" -> "pre" [] e.ev = "arch.take" -> "arch" [] OTHER -> "post", WorkerOf(e.w), e.id)
       [] e.ev = "fin.feedback" -> hand["fin"][WorkerOf(e.w)] = e.id /\ FinFeedback(WorkerOf(e.w))
       [] e.ev = "fin.finish" -> \* the hook sits after MarkAsFinished: the token was released in an earlier (silent) step
            LET w == WorkerOf(e.w) IN
            /\ hand["fin"][w] = e.id /\ marked[w]
            /\ finMsgs' = Append(finMsgs, e.id)
            /\ hand' = [hand EXCEPT !["fin"][w] = "none"]
            /\ UNCHANGED <<queue, tokens, table, input, runHold, chan, passes, complete, outlinks>>
       [] e.ev = "lq.finish.recv" ->
            IF Count(finMsgs, e.id) = 1 THEN UNCHANGED vars ELSE DirectFinish(e.id)
       [] e.ev = "quiescent" ->
            /\ table = {} /\ tokens = 0 /\ e.table = <<>> /\ UNCHANGED vars
       [] OTHER -> UNCHANGED vars
  /\ l' = l + 1
  /\ pend' = IF TraceLog[l].ev = "lq.sender.take" THEN Append(pend, TraceLog[l].id) ELSE pend
  /\ marked' = IF TraceLog[l].ev = "fin.finish" THEN [marked EXCEPT ![WorkerOf(TraceLog[l].w)] = FALSE] ELSE marked

\* MarkAsFinished (delete from the table, release the token) happens before the finish event is logged
FinMark(w) == /\ hand["fin"][w] # "none" /\ complete[hand["fin"][w]] /\ ~marked[w]
              /\ hand["fin"][w] \in table
              /\ table' = table \ {hand["fin"][w]} /\ tokens' = tokens - 1
              /\ marked' = [marked EXCEPT ![w] = TRUE] /\ UNCHANGED pend
              /\ UNCHANGED <<queue, input, runHold, chan, hand, passes, complete, finMsgs, outlinks>>

\* finisher receive is silent too: take any seed waiting for the finisher
FinTake == \E w \in Workers : \E id \in Seeds : TTake("fin", w, id)
Silent == /\ \/ (pend # <<>> /\ Insert(Head(pend)) /\ pend' = Tail(pend))
             \/ (RunTake /\ UNCHANGED pend)
             \/ (RunSend /\ UNCHANGED pend)
             \/ ((\E st \in {"pre", "arch"}, w \in Workers : Forward(st, w)) /\ UNCHANGED pend)
             \/ ((\E w \in Workers, d \in BOOLEAN : PostForward(w, d)) /\ UNCHANGED pend)
             \/ (FinTake /\ UNCHANGED pend)
          /\ UNCHANGED <<l, marked>>

SilentMark == (\E w \in Workers : FinMark(w)) /\ UNCHANGED l

TNext == Consume \/ Silent \/ SilentMark
TSpec == TInit /\ [][TNext]_tvars
Marked == Mark(l)
\* used as an INVARIANT to stop the search as soon as one complete explanation of the trace is found
NotDone == l <= TraceLen
=============================================================================
