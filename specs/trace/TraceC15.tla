------------------------------ MODULE TraceC15 ------------------------------
(* Trace validation of the crawl-HQ delivery paths against HQ.tla (ImplSpec conformance).            *)
(* Path = "add":    items are the fin.produce events (outlinks handed to the source), attempts are    *)
(*                  the fake HQ's hq.add events (urls, fault, applied), BatchSize = --hq-batch-size   *)
(* Path = "delete": items are the fin.finish events, attempts are hq.delete events, BatchSize = the   *)
(*                  worker count.                                                                     *)
(* The receiver / flush / dispatch steps of the model are not logged: they are taken silently, in     *)
(* the one order the next attempt's content dictates (HQ.tla allows any delay of the receiver), so    *)
(* the search is linear.  The trace is explained only if every attempt carries a batch HQ.tla can     *)
(* have in its sender: items produced before, each once, at most BatchSize of them, and - after a     *)
(* failed attempt - the same batch again.                                                            *)
EXTENDS Integers, Sequences, FiniteSets, TraceLib

CONSTANTS Path

ProdEv == IF Path = "add" THEN "fin.produce" ELSE "fin.finish"
SendEv == IF Path = "add" THEN "hq.add" ELSE "hq.delete"
\* add path: an item is the line of its fin.produce event (the same URL text may be produced more than once);
\* delete path: an item is a seed id - finished seeds, and the rows whose text is not a URL, which the consumer
\* acknowledges itself as soon as the queue has handed them out (they never reach the finisher stage)
Key(i) == IF Path = "add" THEN TraceLog[i].u ELSE i
ItemOf(ln) == IF Path = "add" THEN ln ELSE TraceLog[ln].id
Batch(e) == IF Path = "add" THEN [k \in 1..Len(e.urls) |-> e.urls[k].value] ELSE e.ids
Unparsable == IF Path = "add" THEN {} ELSE {TraceLog[i].id : i \in {j \in 1..TraceLen : TraceLog[j].ev = "queued" /\ HasKey(TraceLog[j], "unparsable")}}
AllItems == {ItemOf(i) : i \in {j \in 1..TraceLen : TraceLog[j].ev = ProdEv}} \cup Unparsable
ModeLine == CHOOSE i \in 1..TraceLen : TraceLog[i].ev = "c15.mode"
StartLine == CHOOSE i \in 1..TraceLen : TraceLog[i].ev = "run.start"
BS == IF Path = "add" THEN TraceLog[ModeLine].batch ELSE TraceLog[StartLine].workers

VARIABLES l, born, todo, batch, chan, sending, server, faults, dropped
M == INSTANCE HQ WITH Items <- AllItems, BatchSize <- BS, ChanCap <- 1, Faults <- TraceLen, RetryOnError <- TRUE
tvars == <<l, born, todo, batch, chan, sending, server, faults, dropped>>

TInit == l = 1 /\ born = {} /\ M!Init

Keys(s) == [k \in 1..Len(s) |-> Key(s[k])]
NextIsFirstAttempt == l <= TraceLen /\ TraceLog[l].ev = SendEv /\ sending = <<>>

\* a produced item enters the model's view
EvProduce == /\ l <= TraceLen /\ TraceLog[l].ev = ProdEv
             /\ born' = born \cup {ItemOf(l)} /\ l' = l + 1
             /\ UNCHANGED <<todo, batch, chan, sending, server, faults, dropped>>
\* silent: the receiver takes the item the coming attempt carries at the next position
SilentRecv == /\ NextIsFirstAttempt /\ chan = <<>>
              /\ LET B == Batch(TraceLog[l])
                     k == Len(batch) + 1
                 IN /\ k <= Len(B)
                    /\ LET cand == {i \in todo \cap born : Key(i) = B[k]} IN
                       /\ cand # {}
                       /\ M!Recv(IF Path = "add" THEN CHOOSE i \in cand : \A j \in cand : i <= j ELSE CHOOSE i \in cand : TRUE)
              /\ UNCHANGED <<l, born>>
SilentFlush == /\ NextIsFirstAttempt /\ chan = <<>> /\ batch # <<>> /\ Len(batch) = Len(Batch(TraceLog[l]))
               /\ (M!FlushFull \/ M!FlushTimer)
               /\ UNCHANGED <<l, born>>
SilentDispatch == /\ NextIsFirstAttempt /\ chan # <<>> /\ M!Dispatch /\ UNCHANGED <<l, born>>
\* an attempt reaches the server: the batch in the sender's hand
EvSend == /\ l <= TraceLen /\ TraceLog[l].ev = SendEv /\ sending # <<>>
          /\ Keys(sending) = Batch(TraceLog[l])
          /\ IF TraceLog[l].fault = "ok" THEN M!TryOk ELSE M!TryFail(TraceLog[l].applied)
          /\ l' = l + 1 /\ UNCHANGED born
\* the crawl went quiet: nothing may be left on the way
EvEnd == /\ l <= TraceLen /\ TraceLog[l].ev = "c15.end"
         /\ (TraceLog[l].drained => (todo \cap born = {} /\ batch = <<>> /\ chan = <<>> /\ sending = <<>> /\ born \subseteq server))
         /\ l' = l + 1 /\ UNCHANGED <<born, todo, batch, chan, sending, server, faults, dropped>>
\* the queue hands out rows: those that are not URLs are on their way to the acknowledgement from here on
EvGet == /\ l <= TraceLen /\ TraceLog[l].ev = "hq.get" /\ Path = "delete"
         /\ born' = born \cup ({TraceLog[l].urls[k].id : k \in 1..Len(TraceLog[l].urls)} \cap Unparsable)
         /\ l' = l + 1 /\ UNCHANGED <<todo, batch, chan, sending, server, faults, dropped>>
EvOther == /\ l <= TraceLen /\ TraceLog[l].ev \notin {ProdEv, SendEv, "c15.end"} /\ ~(TraceLog[l].ev = "hq.get" /\ Path = "delete")
           /\ l' = l + 1 /\ UNCHANGED <<born, todo, batch, chan, sending, server, faults, dropped>>

TNext == EvProduce \/ EvGet \/ SilentRecv \/ SilentFlush \/ SilentDispatch \/ EvSend \/ EvEnd \/ EvOther
TSpec == TInit /\ [][TNext]_tvars
Marked == Mark(l)
\* the model's own invariant, evaluated on the states the real run went through
ConservedBorn == \A i \in born : M!Where(i) = 1 \/ (M!Where(i) = 0 /\ i \in server)
=============================================================================
