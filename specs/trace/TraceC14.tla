------------------------------ MODULE TraceC14 ------------------------------
(* ImplSpec trace validation for C14: recorded scenarios of the real pause manager (controller    *)
(* call/ret events, worker sub/take/ack/woken/exit events, stop, quiescent snapshots) must be      *)
(* behaviours of Pause.tla; the manager's internal steps are not logged and are interleaved by TLC. *)
EXTENDS Pause, TraceLib

VARIABLES l, inCall
tvars == <<vars, l, inCall>>

TInit == /\ mu = "free" /\ isPaused = FALSE /\ subs = {}
         /\ sig = [w \in Workers |-> FALSE] /\ closed = [w \in Workers |-> FALSE]
         /\ wpc = [w \in Workers |-> "unborn"]
         /\ cpc = [c \in Ctrls |-> "idle"] /\ rwait = [c \in Ctrls |-> {}]
         /\ calls = [c \in Ctrls |-> 0] /\ work = [w \in Workers |-> 0]
         /\ stopping = FALSE
         /\ l = 1 /\ inCall = [c \in Ctrls |-> FALSE]

Reset == /\ mu' = "free" /\ isPaused' = FALSE /\ subs' = {}
         /\ sig' = [w \in Workers |-> FALSE] /\ closed' = [w \in Workers |-> FALSE]
         /\ wpc' = [w \in Workers |-> "unborn"]
         /\ cpc' = [c \in Ctrls |-> "idle"] /\ rwait' = [c \in Ctrls |-> {}]
         /\ calls' = [c \in Ctrls |-> 0] /\ work' = [w \in Workers |-> 0]
         /\ stopping' = FALSE /\ inCall' = [c \in Ctrls |-> FALSE]

WAck(w) == /\ wpc[w] = "select" /\ sig[w]
           /\ sig' = [sig EXCEPT ![w] = FALSE] /\ wpc' = [wpc EXCEPT ![w] = "acked"]
           /\ UNCHANGED <<mu, isPaused, subs, closed, cpc, rwait, calls, work, stopping>>
WTake(w) == /\ wpc[w] = "select"
            /\ wpc' = [wpc EXCEPT ![w] = "work"]
            /\ UNCHANGED <<mu, isPaused, subs, sig, closed, cpc, rwait, calls, work, stopping>>
WExit(w) == /\ stopping /\ (wpc[w] = "select" \/ (WorkerCtx /\ wpc[w] = "acked"))
            /\ Exit(w)
            /\ UNCHANGED <<mu, isPaused, sig, cpc, rwait, calls, work, stopping>>

Consume ==
  /\ l <= TraceLen
  /\ LET e == TraceLog[l] IN
     CASE e.ev = "start" -> Reset
       [] e.ev = "call" -> /\ ~inCall[e.c]
                           /\ (IF e.op = "pause" THEN CallPause(e.c) ELSE CallResume(e.c))
                           /\ inCall' = [inCall EXCEPT ![e.c] = TRUE]
       [] e.ev = "ret" -> /\ inCall[e.c] /\ cpc[e.c] = "idle"
                          /\ inCall' = [inCall EXCEPT ![e.c] = FALSE] /\ UNCHANGED vars
       [] e.ev = "sub" -> Subscribe(e.w) /\ UNCHANGED inCall
       [] e.ev = "ack" -> WAck(e.w) /\ UNCHANGED inCall
       [] e.ev = "take" -> WTake(e.w) /\ UNCHANGED inCall
       [] e.ev = "woken" -> wpc[e.w] \in {"select", "work"} /\ UNCHANGED <<vars, inCall>>
       [] e.ev = "exit" -> WExit(e.w) /\ UNCHANGED inCall
       [] e.ev = "stop" -> Stop /\ UNCHANGED inCall
       [] e.ev = "snap" -> /\ isPaused = e.paused
                           /\ \A w \in DOMAIN e.ws : (e.ws[w] = "acked") = (wpc[w] = "acked")
                           /\ UNCHANGED <<vars, inCall>>
       [] e.ev = "end" -> UNCHANGED <<vars, inCall>>
       [] e.ev \in {"stuck", "wstuck"} -> FALSE
  /\ l' = l + 1

Silent == /\ \/ \E c \in Ctrls : CtrlStep(c)
             \/ \E w \in Workers : WDone(w)
          /\ UNCHANGED <<l, inCall>>

TNext == Consume \/ Silent
TSpec == TInit /\ [][TNext]_tvars
Marked == Mark(l)
=============================================================================
