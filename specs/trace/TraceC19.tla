------------------------------ MODULE TraceC19 ------------------------------
(* Trace validation for C19's bucket walks.  Every step of a walk through the real extractor.S3 is  *)
(* checked against S3Walk.tla: the page the simulated server produced is the model's page for that   *)
(* request (binds the harness's server to the specification), the links the real extractor returned  *)
(* are the model's links for that page (ImplSpec conformance, recorded as drift), and - the property  *)
(* itself - the walk ends with every non-zero-size object queued, nothing else queued, within a       *)
(* bounded number of pages.                                                                         *)
EXTENDS S3Walk, TraceLib

VARIABLES l, cur        \* cur: the walk in progress [bucket, zero, n, v2]
tvars == <<l, cur, vars>>

SeqSet(s) == {s[i] : i \in 1..Len(s)}
ToEntry(j) == [k |-> j.k, cp |-> j.cp]
ToReqV2(j) == [prefix |-> j.prefix, tok |-> ToEntry(j.tok)]
ToReqLegacy(j) == [marker |-> j.marker]

TInit == /\ l = 1 /\ cur = [bucket |-> {}, zero |-> {}, n |-> 1, v2 |-> TRUE]
         /\ bucket = {} /\ zero = {} /\ n = 1 /\ v2 = TRUE /\ frontier = {} /\ visited = {} /\ queued = {}   \* the model's own variables are not used here

Consume ==
  /\ l <= TraceLen
  /\ LET e == TraceLog[l] IN
     CASE e.ev = "s3.start" ->
            cur' = [bucket |-> SeqSet(e.bucket), zero |-> SeqSet(e.zero), n |-> e.n, v2 |-> e.v2]
       [] e.ev = "s3.page" ->
            \* the API version is the request's own: a link the code under test built may lead to a listing of the other version
            LET rv2 == IF HasKey(e, "v2") THEN e.v2 ELSE cur.v2
                req == IF rv2 THEN ToReqV2(e.req) ELSE ToReqLegacy(e.req)
                page == IF rv2 THEN PageV2(cur.bucket, req.prefix, req.tok, cur.n) ELSE PageLegacy(cur.bucket, req.marker, cur.n)
                links == IF rv2 THEN LinksV2(req, page, cur.zero) ELSE LinksLegacy(req, page, cur.zero)
                gotListings == IF rv2 THEN {ToReqV2(e.listings[i]) : i \in 1..Len(e.listings)}
                               ELSE {ToReqLegacy(e.listings[i]) : i \in 1..Len(e.listings)}
            IN /\ Check({ToEntry(e.page.entries[i]) : i \in 1..Len(e.page.entries)} = page.entries /\ e.page.truncated = page.truncated, l,
                        "HARNESS: simulated server page differs from the specification")
               /\ (IF gotListings = links.listings /\ SeqSet(e.objects) = links.objects /\ ~HasKey(e, "err") /\ e.other = <<>>
                   THEN TRUE ELSE Drift(l, "links"))
               /\ UNCHANGED cur
       [] e.ev = "s3.end" ->
            /\ Check(e.exhausted, l, "bucket walk did not terminate within the page budget")
            /\ Check(SeqSet(e.queued) \subseteq (cur.bucket \ cur.zero), l, "something other than a non-empty object of the bucket was queued")
            /\ Check((cur.bucket \ cur.zero) \subseteq SeqSet(e.queued), l, "an object of non-zero size was never queued")
            /\ Check(e.pages <= 3 * (Cardinality(cur.bucket) + 2), l, "walk needed more listing pages than the bound")
            /\ UNCHANGED cur
  /\ l' = l + 1
  /\ UNCHANGED vars

TSpec == TInit /\ [][Consume]_tvars
Marked == Mark(l)
=============================================================================
