------------------------------ MODULE TraceC03 ------------------------------
(* Trace validation of real stop runs against Stop.tla (ImplSpec conformance, partial: the stage     *)
(* channels' contents are not logged, so the model's worker moves that depend on them are not         *)
(* replayed; what is bound is the shutdown protocol itself).  From the recorded worker events the      *)
(* trace spec keeps the model's worker state (idle / acked / busy / exited per stage and worker) and   *)
(* the model's step counter, and demands at every recorded step of stopPipeline what StopStep's        *)
(* guard demands in the model:                                                                        *)
(*   - the steps come in the model's order (Steps);                                                    *)
(*   - a stage's Stop returns only when AllExited(stage) - every worker that was started has exited;   *)
(*   - a worker leaves only after the stop request (before that an exit is a crash);                    *)
(*   - when Stop has returned, WorkersGone holds;                                                      *)
(*   - a worker that acknowledged a pause is woken or leaves, and does not take work in between.        *)
EXTENDS Integers, Sequences, FiniteSets, TraceLib

StartLine == CHOOSE i \in 1..TraceLen : TraceLog[i].ev = "run.start"
NW == TraceLog[StartLine].workers

VARIABLES l, wst, inq, cancelled, paused, sig, sourceUp, stopping, step, crashed, work
M == INSTANCE Stop WITH W <- NW, Cap <- NW, NSeeds <- 0, WorkerCtx <- TRUE, ClientNil <- FALSE, NilGuard <- TRUE, SeenOff <- FALSE, SeenGuard <- TRUE, FeedGuard <- TRUE
tvars == <<l, wst, inq, cancelled, paused, sig, sourceUp, stopping, step, crashed, work>>

\* worker ids are logged as "0", "1", ...: the model's workers are 1..W
Wid(s) == CASE s = "0" -> 1 [] s = "1" -> 2 [] s = "2" -> 3 [] s = "3" -> 4 [] OTHER -> 5
StageOf(ev) == CASE ev \in {"pre.take", "pre.done", "pre.paused", "pre.woken", "pre.exit", "pre.start"} -> "pre"
                 [] ev \in {"arch.take", "arch.done", "arch.paused", "arch.woken", "arch.exit", "arch.start"} -> "arch"
                 [] ev \in {"post.take", "post.done", "post.closed", "post.paused", "post.woken", "post.exit", "post.start"} -> "post"
                 [] OTHER -> "fin"
Kind(ev) == CASE ev \in {"pre.take", "arch.take", "post.take"} -> "take"
              [] ev \in {"pre.done", "arch.done", "post.closed", "fin.finish", "fin.feedback"} -> "done"
              [] ev \in {"pre.paused", "arch.paused", "post.paused", "fin.paused"} -> "paused"
              [] ev \in {"pre.woken", "arch.woken", "post.woken", "fin.woken"} -> "woken"
              [] ev \in {"pre.exit", "arch.exit", "post.exit", "fin.exit"} -> "exit"
              [] OTHER -> "other"
StepName(s) == CASE s = "watchers" -> "watchers" [] s = "freeze" -> "freeze" [] s = "preprocessor" -> "pre" [] s = "archiver" -> "arch"
                 [] s = "postprocessor" -> "post" [] s = "finisher" -> "fin" [] s = "source" -> "source" [] s = "reactor" -> "reactor" [] OTHER -> s

TInit == l = 1 /\ M!Init
SetW(st, w, v) == wst' = [wst EXCEPT ![st][w] = v]
Rest == UNCHANGED <<inq, cancelled, paused, sig, sourceUp, crashed, work>>

TNext ==
  /\ l <= TraceLen
  /\ l' = l + 1
  /\ LET e == TraceLog[l] k == Kind(e.ev) IN
     CASE k = "take" ->
            /\ (IF wst[StageOf(e.ev)][Wid(e.w)] = "acked" THEN Drift(l, "a worker that acknowledged a pause took work before it was woken") ELSE TRUE)
            /\ SetW(StageOf(e.ev), Wid(e.w), "busy") /\ UNCHANGED <<stopping, step>> /\ Rest
       [] k = "done" -> SetW(StageOf(e.ev), Wid(e.w), "idle") /\ UNCHANGED <<stopping, step>> /\ Rest
       [] k = "paused" -> SetW(StageOf(e.ev), Wid(e.w), "acked") /\ UNCHANGED <<stopping, step>> /\ Rest
       [] k = "woken" ->
            /\ (IF wst[StageOf(e.ev)][Wid(e.w)] # "acked" THEN Drift(l, "a worker was woken that had not acknowledged a pause") ELSE TRUE)
            /\ SetW(StageOf(e.ev), Wid(e.w), "idle") /\ UNCHANGED <<stopping, step>> /\ Rest
       [] k = "exit" ->
            /\ (IF ~stopping THEN Drift(l, "a stage worker left although no stop was requested") ELSE TRUE)
            /\ SetW(StageOf(e.ev), Wid(e.w), "exited") /\ UNCHANGED <<stopping, step>> /\ Rest
       [] e.ev = "stop.call" -> stopping' = TRUE /\ UNCHANGED <<wst, step>> /\ Rest
       [] e.ev = "stop.step" /\ e.step # "begin" ->
            LET s == StepName(e.step) IN
            /\ (IF M!Steps[step] # s THEN Drift(l, "stopPipeline's steps are not in the model's order") ELSE TRUE)
            /\ (IF s \in M!Stages /\ ~M!AllExited(s) THEN Drift(l, "a stage's Stop returned while one of its workers was still running") ELSE TRUE)
            /\ step' = step + 1 /\ UNCHANGED <<wst, stopping>> /\ Rest
       [] e.ev = "stop.ret" ->
            /\ (IF \E st \in M!Stages : ~M!AllExited(st) THEN Drift(l, "Stop returned with a stage worker still alive") ELSE TRUE)
            /\ UNCHANGED <<wst, stopping, step>> /\ Rest
       [] OTHER -> UNCHANGED <<wst, stopping, step>> /\ Rest
TSpec == TInit /\ [][TNext]_tvars
Marked == Mark(l)
=============================================================================
