------------------------------ MODULE TraceC11 ------------------------------
(* ImplSpec trace validation for C11: every recorded primitive operation on a real models.Item *)
(* tree must be the ItemTree operator applied to the tree the previous event left behind.      *)
(* Mismatches are recorded (spec drift) and validation resynchronises on the logged tree.      *)
EXTENDS ItemTree, TraceLib

CONSTANT Fix
VARIABLES l, tree, bad
vars == <<l, tree, bad>>

IsStart(e) == e.op \in {"new", "build"}
ToTree(js) == [k \in 1..Len(js) |-> Node(js[k].d, js[k].u, js[k].st)]

Expected(e, t) ==
  CASE e.op = "new"    -> <<Node(0, e.u, "Fresh")>>
    [] e.op = "build"  -> ToTree(e.tree)
    [] e.op = "remove" -> RemoveSub(t, e.i)
    [] e.op = "set"    -> SetStatus(t, e.i, e.st)
    [] e.op = "add"    -> AddChild(t, e.i, e.u, e.from)
    [] e.op \in {"dedupe", "dedupe-any"} -> Dedupe(t, Fix)
    [] e.op \in {"cac", "cac-any"} -> CompleteAndCheck(t).t

Init == l = 1 /\ tree = <<>> /\ bad = FALSE

\* does event e conform to the specification, given the tree the previous event left behind?
Conforms(e) ==
  LET before == IF IsStart(e) THEN <<>> ELSE ToTree(e.before) IN
  /\ (IsStart(e) \/ before = tree)      \* k = 0: stand-alone test on a rebuilt tree
  /\ ToTree(e.after) = Expected(e, before)
  /\ (e.op \notin {"cac", "cac-any"} \/ e.r = CompleteAndCheck(before).r)
  /\ ~HasKey(e, "err")

\* after the first non-conforming event of a history the rest of that history is not judged
Next == /\ l <= TraceLen
        /\ LET e == TraceLog[l] IN
           IF e.op = "conc" THEN UNCHANGED <<tree, bad>>      \* concurrent rounds are judged by the monitor only
           ELSE IF IsStart(e) \/ ~bad
           THEN IF Conforms(e)
                THEN tree' = ToTree(e.after) /\ bad' = FALSE
                ELSE Drift(l, e.op) /\ tree' = ToTree(e.after) /\ bad' = TRUE
           ELSE UNCHANGED <<tree, bad>>
        /\ l' = l + 1

Spec == Init /\ [][Next]_vars
Marked == Mark(l)
=============================================================================
