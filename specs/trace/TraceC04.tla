------------------------------ MODULE TraceC04 ------------------------------
(* Trace validation of the two-process kill / stop / restart cases of C04 against LocalQueue.tla       *)
(* (ImplSpec conformance).  Every transaction and hand-over of the queue code is logged, so the search  *)
(* is linear; the only inferred steps are Insert (the sender's ReceiveInsert returning: seen at the     *)
(* seed's first pre.take or at the sender's next take) and Capture (seen when the reactor drops the     *)
(* seed from its table, the point right before the token is released).                                  *)
(* The content of lq.db read by the second process before it starts ("rows before-run2") and after the  *)
(* restarted crawl went idle is compared with the model's rows: what a kill or a graceful stop leaves    *)
(* behind, and what the restart makes of it, must be what the model says.                               *)
EXTENDS Integers, Sequences, FiniteSets, TraceLib

AllIds == {TraceLog[i].id : i \in {j \in 1..TraceLen : TraceLog[j].ev = "queued"}}
StartLine == CHOOSE i \in 1..TraceLen : TraceLog[i].ev = "run.start"
W == TraceLog[StartLine].workers

VARIABLES l, row, slice, chanbuf, sending, inflight, captured, finmsg, finBatch, reported, alive, kills
M == INSTANCE LocalQueue WITH Ids <- AllIds, Batch <- W, ResetAtStart <- TRUE, MaxKills <- 5
mvars == <<row, slice, chanbuf, sending, inflight, captured, finmsg, finBatch, reported, alive, kills>>
tvars == <<l, row, slice, chanbuf, sending, inflight, captured, finmsg, finBatch, reported, alive, kills>>

TInit == l = 1 /\ M!Init
SeqSet(s) == {s[i] : i \in 1..Len(s)}
Ev == TraceLog[l].ev
E == TraceLog[l]
Consume == l' = l + 1
Skip == Consume /\ UNCHANGED mvars

RowOf(rs, id) == LET S == {k \in 1..Len(rs) : rs[k].id = id} IN IF S = {} THEN "gone" ELSE rs[CHOOSE k \in S : TRUE].status
\* a transaction may have committed without its event reaching the log before the process died
RowsAgree(rs) == \A id \in AllIds : \/ RowOf(rs, id) = row[id]
                                     \/ (~alive /\ row[id] = "FRESH" /\ RowOf(rs, id) = "CLAIMED")
                                     \/ (~alive /\ row[id] = "CLAIMED" /\ RowOf(rs, id) = "gone" /\ id \in reported)

\* the id named by the next lq.sender.take event (the sender's hook runs a little after its channel receive)
NextTakeId == LET S == {k \in l..TraceLen : TraceLog[k].ev = "lq.sender.take"} IN
              IF S = {} THEN M!None ELSE TraceLog[CHOOSE k \in S : \A j \in S : k <= j].id
\* a push that finds the channel full in the model: the sender has already received the next row, its hook is late
PushBlocked == /\ l <= TraceLen /\ Ev = "lq.buffer.put" /\ E.id \in slice /\ Cardinality(chanbuf) >= W /\ NextTakeId \in chanbuf

\* silent: the sender's ReceiveInsert has returned (it is back at its select, or the seed is already in a stage)
NeedInsert == /\ l <= TraceLen /\ sending # M!None
              /\ \/ (Ev = "lq.sender.take" /\ E.id # sending)
                 \/ PushBlocked
                 \/ (Ev \in {"pre.take", "reactor.finish.deleted"} /\ E.id = sending)
SilentInsert == alive /\ NeedInsert /\ M!Insert /\ UNCHANGED l
\* silent: the seed's responses are in the WARC (the finish message is about to be consumed)
SilentTake == alive /\ PushBlocked /\ sending = M!None /\ M!Take(NextTakeId) /\ UNCHANGED l
SilentCapture == /\ l <= TraceLen /\ alive /\ Ev = "reactor.finish.deleted" /\ sending # E.id /\ E.id \in inflight /\ E.id \notin captured
                 /\ M!Capture(E.id) /\ UNCHANGED l

Step ==
  /\ l <= TraceLen
  /\ ~(alive /\ NeedInsert)
  /\ CASE ~alive /\ Ev \notin {"run.start", "rows"} -> Skip      \* events of goroutines that were still running when the kill was logged
       [] Ev = "lq.claim" -> M!ClaimSet(SeqSet(E.ids)) /\ Consume
       [] Ev = "lq.buffer.put" -> IF E.id \in slice THEN M!Push(E.id) /\ Consume ELSE Skip     \* else: the sender was faster than the hook
       [] Ev = "lq.sender.take" ->
            IF E.id \in chanbuf THEN M!Take(E.id) /\ Consume
            ELSE IF sending = E.id THEN Skip        \* already taken silently (late hook)
            ELSE \* taken from the channel before the fetcher's hook after the send ran: Push and Take at once
                 /\ E.id \in slice /\ sending = M!None /\ alive
                 /\ slice' = slice \ {E.id} /\ sending' = E.id /\ Consume
                 /\ UNCHANGED <<row, chanbuf, inflight, captured, finmsg, finBatch, reported, alive, kills>>
       [] Ev = "reactor.finish.deleted" -> (E.id \in captured) /\ M!Finish(E.id) /\ Consume     \* the token is released right after this point
       [] Ev = "lq.finish.recv" -> M!Recv(E.id) /\ Consume
       [] Ev = "lq.delete" -> M!DeleteSet(SeqSet(E.ids)) /\ Consume
       [] Ev = "kill" -> M!Kill /\ Consume
       [] Ev = "run1.end" -> M!Stop /\ Consume
       [] Ev = "run.start" -> IF alive THEN Skip ELSE M!Restart /\ Consume
       [] Ev = "rows" ->
            IF HasKey(E, "err") THEN Skip
            ELSE /\ (IF RowsAgree(E.rows) THEN TRUE ELSE Drift(l, "rows " \o E.when))
                 /\ row' = [id \in AllIds |-> RowOf(E.rows, id)] /\ Consume       \* go on from what is really on disk
                 /\ UNCHANGED <<slice, chanbuf, sending, inflight, captured, finmsg, finBatch, reported, alive, kills>>
       [] OTHER -> Skip

TNext == SilentInsert \/ SilentTake \/ SilentCapture \/ Step
TSpec == TInit /\ [][TNext]_tvars
Marked == Mark(l)
ModelInvariants == M!FinishedCaptured /\ M!OnePlace
=============================================================================
