----------------------------- MODULE UrlAlgebra -----------------------------
(* C09: reference resolution and canonical form over TOKENS (not a parser).                      *)
(*   Url == [scheme, host, port, path : Seq(segment), query : Seq(<<key, value>>)]               *)
(*          path <<"a","b","">> is "/a/b/", <<"">> is "/"                                        *)
(*   Ref == [kind, scheme, host, port, segs, hasq, query]                                        *)
(*          kind \in {"abs","schemerel","pathabs","pathrel","query","empty"}; segs may contain    *)
(*          "." and ".."; a fragment on the reference is irrelevant (it is stripped)              *)
(* Resolve follows RFC 3986 section 5.2 / the WHATWG URL standard where they agree.              *)
EXTENDS Integers, Sequences, TLC

Front(s) == IF s = <<>> THEN <<>> ELSE SubSeq(s, 1, Len(s) - 1)

\* remove_dot_segments on a segment list (the list always denotes a path starting with "/")
RECURSIVE RD(_, _, _)
RD(segs, i, out) ==
  IF i > Len(segs) THEN (IF out = <<>> THEN <<"">> ELSE out)
  ELSE LET s == segs[i]
           last == i = Len(segs)
       IN IF s = "." THEN RD(segs, i + 1, IF last THEN Append(out, "") ELSE out)
          ELSE IF s = ".." THEN RD(segs, i + 1, IF last THEN Append(Front(out), "") ELSE Front(out))
          ELSE RD(segs, i + 1, Append(out, s))
RemoveDots(segs) == RD(segs, 1, <<>>)

DefaultPort(scheme, port) == (scheme = "http" /\ port = "80") \/ (scheme = "https" /\ port = "443")
NormPort(scheme, port) == IF DefaultPort(scheme, port) THEN "" ELSE port

Mk(scheme, host, port, path, query) ==
  [scheme |-> scheme, host |-> host, port |-> NormPort(scheme, port), path |-> path, query |-> query]

Resolve(b, r) ==
  CASE r.kind = "abs"       -> Mk(r.scheme, r.host, r.port, RemoveDots(r.segs), r.query)
    [] r.kind = "schemerel" -> Mk(b.scheme, r.host, r.port, RemoveDots(r.segs), r.query)
    [] r.kind = "pathabs"   -> Mk(b.scheme, b.host, b.port, RemoveDots(r.segs), r.query)
    [] r.kind = "pathrel"   -> Mk(b.scheme, b.host, b.port, RemoveDots(Front(b.path) \o r.segs), r.query)
    [] r.kind = "query"     -> Mk(b.scheme, b.host, b.port, b.path, r.query)
    [] r.kind = "empty"     -> Mk(b.scheme, b.host, b.port, b.path, b.query)

\* the statement's shape requirements on an accepted result
Accept(u) == u.scheme \in {"http", "https"}

AsAbsRef(u) == [kind |-> "abs", scheme |-> u.scheme, host |-> u.host, port |-> u.port,
                segs |-> u.path, hasq |-> u.query # <<>>, query |-> u.query]
NoDots(path) == \A i \in 1..Len(path) : path[i] \notin {".", ".."}
=============================================================================
