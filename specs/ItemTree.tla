------------------------------ MODULE ItemTree ------------------------------
(* The seed's item tree (pkg/models/item.go, item_dedupe.go) as an identity-free pre-order list *)
(* and every mutator the pipeline stages use, as operators on that list.                        *)
(*   Node == [d |-> depth, u |-> url, st |-> status]                                            *)
(* Children of entry i are the following entries of depth d+1 up to the next entry of depth<=d.  *)
(* The operators are shared by the pipeline model (ItemTreeSpec, Zeno) and by the trace specs.   *)
EXTENDS Naturals, Sequences, FiniteSets, TLC

Statuses == {"Fresh", "PreProcessed", "Archived", "Failed", "Completed", "Seen",
             "GotRedirected", "GotChildren"}

\* models.Item.HasWork
HasWork(st) == st \notin {"Completed", "Seen", "Failed"}
\* a node that itself still awaits fetching (Fresh, PreProcessed) or post-processing (Archived)
Awaits(st) == st \in {"Fresh", "PreProcessed", "Archived"}

Node(d, u, st) == [d |-> d, u |-> u, st |-> st]

MaxOf(S) == CHOOSE x \in S : \A y \in S : y <= x

\* last index of the subtree rooted at i
End(t, i) == MaxOf({j \in i..Len(t) : \A k \in (i + 1)..j : t[k].d > t[i].d})
Parent(t, i) == IF i = 1 THEN 0 ELSE MaxOf({j \in 1..(i - 1) : t[j].d = t[i].d - 1})
Children(t, i) == {j \in (i + 1)..End(t, i) : t[j].d = t[i].d + 1}
MaxDepth(t) == MaxOf({t[i].d : i \in 1..Len(t)})
AtLevel(t, k) == {i \in 1..Len(t) : t[i].d = k}
Urls(t) == {t[i].u : i \in 1..Len(t)}
Pending(t) == \E i \in 1..Len(t) : Awaits(t[i].st)

\* a pre-order depth list that really is a tree rooted at entry 1
WellShaped(t) == /\ Len(t) >= 1
                 /\ t[1].d = 0
                 /\ \A i \in 2..Len(t) : t[i].d >= 1 /\ t[i].d <= t[i - 1].d + 1

\* transcription of models.Item.CheckConsistency (status/structure rules)
Consistent(t) ==
  \A i \in 1..Len(t) :
    LET nc == Cardinality(Children(t, i)) IN
      /\ (t[i].st = "Fresh" => nc = 0)
      /\ (t[i].st = "Fresh" /\ i > 1 => t[Parent(t, i)].st \in {"GotChildren", "GotRedirected"})
      /\ (nc > 1 => t[i].st # "GotRedirected")
      /\ (nc > 0 => t[i].st \in {"GotChildren", "GotRedirected", "Completed", "Failed"})

-----------------------------------------------------------------------------
(* Mutators *)

SetStatus(t, i, st) == [t EXCEPT ![i].st = st]

\* parent.RemoveChild(node): the node goes away with its whole subtree
RemoveSub(t, i) == SubSeq(t, 1, i - 1) \o SubSeq(t, End(t, i) + 1, Len(t))

\* parent.AddChild(NewItem(u), from): appended as last child, parent status := from, child Fresh
AddChild(t, i, u, from) ==
  LET e == End(t, i)
      t2 == [t EXCEPT ![i].st = from]
  IN SubSeq(t2, 1, e) \o <<Node(t[i].d + 1, u, "Fresh")>> \o SubSeq(t2, e + 1, Len(t2))

\* markCompleted: bottom-up; a GotChildren/GotRedirected node whose children all have no work
\* (or that has no children) becomes Completed.  Reverse index order = children before parents.
RECURSIVE MC(_, _)
MC(t, i) ==
  IF i = 0 THEN t
  ELSE LET done == \A c \in Children(t, i) : ~HasWork(t[c].st)
           t2 == IF done /\ t[i].st \in {"GotChildren", "GotRedirected"}
                 THEN SetStatus(t, i, "Completed") ELSE t
       IN MC(t2, i - 1)
MarkCompleted(t) == MC(t, Len(t))

\* DedupeItems.  The code flattens the tree first and then walks that snapshot, so nodes below an
\* already detached node are still visited (identity = index in the snapshot).  `removed` collects
\* the nodes RemoveChild was called on; a node is live iff no ancestor-or-self was removed.
\* Fix == TRUE models the repaired rule: a node that already has children is kept in favour of a
\* childless duplicate (see known-findings.txt, fixed: property=C11).
RECURSIVE DD(_, _, _, _, _)
DD(t, k, urls, removed, Fix) ==
  IF k > Len(t) THEN removed
  ELSE LET u == t[k].u IN
       IF u \in DOMAIN urls
       THEN LET e == urls[u]
                preferNode == \/ t[k].st = "Completed"
                              \/ (Fix /\ Children(t, k) # {} /\ Children(t, e) = {})
            IN IF t[e].st # "Completed" /\ preferNode
               THEN DD(t, k + 1, [urls EXCEPT ![u] = k], removed \cup {e}, Fix)
               ELSE DD(t, k + 1, urls, removed \cup {k}, Fix)
       ELSE DD(t, k + 1, urls @@ (u :> k), removed, Fix)

RECURSIVE Pick(_, _, _)
Pick(t, i, S) == IF i > Len(t) THEN <<>>
                 ELSE (IF i \in S THEN <<t[i]>> ELSE <<>>) \o Pick(t, i + 1, S)

DedupeLive(t, Fix) ==
  LET removed == DD(t, 2, <<>>, {}, Fix)
  IN {i \in 1..Len(t) : ~\E j \in removed : j <= i /\ i <= End(t, j)}

DedupeOnly(t, Fix) == Pick(t, 1, DedupeLive(t, Fix))
Dedupe(t, Fix) == MarkCompleted(DedupeOnly(t, Fix))

\* CompleteAndCheck on the seed
CompleteAndCheck(t) ==
  IF ~HasWork(t[1].st) THEN [t |-> t, r |-> TRUE]
  ELSE LET t2 == MarkCompleted(t) IN [t |-> t2, r |-> ~HasWork(t2[1].st)]

-----------------------------------------------------------------------------
(* Property-level predicates (written from the statement of C11, not from the code) *)

\* exactly one node per URL among the non-seed nodes (the seed is never a dedupe candidate)
OnePerUrl(t) == \A i, j \in 2..Len(t) : t[i].u = t[j].u => i = j
NoUrlLost(before, after) == Urls(before) \subseteq Urls(after)
CompletionExact(after, r) == r <=> ~Pending(after)
=============================================================================
