---------------------------------- MODULE HQ ----------------------------------
(* C15: delivery of outlinks (and, symmetrically, finish acknowledgements) to the queue service:    *)
(* receiver -> batch (flushed when full or by the 5 s ticker) -> bounded batch channel -> dispatcher   *)
(* -> sender with retry and back-off.  The environment may make any of the first Faults attempts fail, *)
(* before or after the server applied the request (timeout after apply).                              *)
(* RetryOnError = FALSE models a sender that gives up after an error (the mutation the property       *)
(* guards against).                                                                                   *)
EXTENDS Integers, Sequences, FiniteSets, TLC

CONSTANTS Items, BatchSize, ChanCap, Faults, RetryOnError

VARIABLES todo,      \* items the pipeline has still to produce
          batch,     \* receiver's current batch (sequence)
          chan,      \* batches waiting for the dispatcher
          sending,   \* batch held by the sender ("none" = <<>>)
          server,    \* items the server has applied (a set: the server de-duplicates by value)
          faults,    \* attempts the environment may still break
          dropped    \* batches the sender gave up on
vars == <<todo, batch, chan, sending, server, faults, dropped>>

Init == todo = Items /\ batch = <<>> /\ chan = <<>> /\ sending = <<>> /\ server = {} /\ faults = Faults /\ dropped = {}

SeqSet(s) == {s[i] : i \in 1..Len(s)}
Recv(i) == /\ i \in todo /\ Len(batch) < BatchSize
           /\ todo' = todo \ {i} /\ batch' = Append(batch, i)
           /\ UNCHANGED <<chan, sending, server, faults, dropped>>
FlushFull == /\ Len(batch) >= BatchSize /\ Len(chan) < ChanCap
             /\ chan' = Append(chan, batch) /\ batch' = <<>>
             /\ UNCHANGED <<todo, sending, server, faults, dropped>>
FlushTimer == /\ batch # <<>> /\ Len(batch) < BatchSize /\ Len(chan) < ChanCap
              /\ chan' = Append(chan, batch) /\ batch' = <<>>
              /\ UNCHANGED <<todo, sending, server, faults, dropped>>
Dispatch == /\ sending = <<>> /\ chan # <<>>
            /\ sending' = Head(chan) /\ chan' = Tail(chan)
            /\ UNCHANGED <<todo, batch, server, faults, dropped>>
TryOk == /\ sending # <<>>
         /\ server' = server \cup SeqSet(sending) /\ sending' = <<>>
         /\ UNCHANGED <<todo, batch, chan, faults, dropped>>
\* a failed attempt: 5xx / reset (not applied) or a timeout after the server applied it
TryFail(applied) == /\ sending # <<>> /\ faults > 0 /\ faults' = faults - 1
                    /\ server' = IF applied THEN server \cup SeqSet(sending) ELSE server
                    /\ IF RetryOnError THEN UNCHANGED <<sending, dropped>>
                       ELSE dropped' = dropped \cup SeqSet(sending) /\ sending' = <<>>
                    /\ UNCHANGED <<todo, batch, chan>>

Next == (\E i \in Items : Recv(i)) \/ FlushFull \/ FlushTimer \/ Dispatch \/ TryOk \/ TryFail(TRUE) \/ TryFail(FALSE)
Live == (\E i \in Items : Recv(i)) \/ FlushFull \/ FlushTimer \/ Dispatch \/ TryOk
Spec == Init /\ [][Next]_vars /\ WF_vars(Live) /\ WF_vars(TryOk)

\* nothing disappears while the crawler runs: every item is somewhere
Where(i) == (IF i \in todo THEN 1 ELSE 0) + (IF i \in SeqSet(batch) THEN 1 ELSE 0)
            + (IF \E k \in 1..Len(chan) : i \in SeqSet(chan[k]) THEN 1 ELSE 0)
            + (IF i \in SeqSet(sending) THEN 1 ELSE 0)
Conserved == \A i \in Items : Where(i) = 1 \/ (Where(i) = 0 /\ i \in server)
AllDelivered == <>[](server = Items)
=============================================================================
