------------------------------ MODULE DiskGuardMath ------------------------------
(* C18: the low-disk decision (internal/pkg/controler/watchers/disk.go checkThreshold).        *)
(* Part 1: exact arithmetic on byte counts split as q * 2^20 + r (TLC integers are 32 bit), *)
(*         used by the monitor to decide real (total, free, min-space-required) triples.        *)
(* Part 2: the decision on an abstract grid (unit = 1 GiB / Scale) checked exhaustively.        *)
EXTENDS Integers, Sequences, TLC

B == 1048576                       \* 2^20
Num(q, r) == [q |-> q, r |-> r]
Less(a, b) == a.q < b.q \/ (a.q = b.q /\ a.r < b.r)
Mul(a, k) == Num(k * a.q + (k * a.r) \div B, (k * a.r) % B)     \* k <= 128, a.q < 2^23
GiB(n) == Num(n * 1024, 0)

\* The statement of C18, in exact arithmetic:
\*   threshold = msr GiB when given, else 50 GiB * total / 256 GiB (total <= 256 GiB), else 50 GiB
\*   refuse <=> free < threshold.       thr: integer part (split) + "has a fractional part"
RefuseDefault(total, free) ==
  IF ~Less(GiB(256), total)                       \* total <= 256 GiB
  THEN Less(Mul(free, 128), Mul(total, 25))       \* free < 50*total/256  <=>  128*free < 25*total
  ELSE Less(free, GiB(50))
RefuseGiven(free, thrInt, thrFrac) == Less(free, thrInt) \/ (free = thrInt /\ thrFrac)
=============================================================================
