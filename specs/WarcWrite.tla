------------------------------ MODULE WarcWrite ------------------------------
(* C02: from fetch to finish.  Each item of a seed is fetched; the WARC library captures the wire   *)
(* traffic and - in its own goroutine, after the whole response was read - asks the discard chain;   *)
(* an accepted capture is queued as a batch and written by one of P writers, which then signals the   *)
(* item's feedback channel.  With synchronous writing the archiver waits for that signal before it   *)
(* marks the item Archived; the seed can only be finished once all its items are Archived / Failed.  *)
(* A rejected capture is dropped (the library signals the feedback channel as well).                *)
(* SyncWait = FALSE models an archiver that does not wait (the mutation the property guards against).*)
(* Retried is the set of fetches whose answer made the archiver retry or give up (5xx, 408, 425, 429):  *)
(* they are captures like any other.  WaitRetried = FALSE is the pinned commit, which went on without    *)
(* waiting for their records (repaired: it waits for every attempt).                                    *)
(* The items of one level are fetched by concurrent goroutines (Start).  OwnFeedback = TRUE: each waits   *)
(* for the signal of its OWN request; FALSE models goroutines that share one channel variable and so     *)
(* wait for the request that was started last (the change seeded as C04 r4-m1).                         *)
EXTENDS Integers, Sequences, FiniteSets, TLC

CONSTANTS Items, Writers, SyncWait, Retried, WaitRetried, OwnFeedback
Outcomes == {"accept", "reject"}

VARIABLES ipc,        \* item: "idle" | "fetch" | "captured" | "decided" | "queued" | "written" | "dropped" (library side)
          apc,        \* archiver side of the item: "doing" | "waiting" | "archived"
          policy,     \* what the discard chain says about the item's response
          fb,         \* feedback signalled
          wq,         \* writer queue (sequence of items)
          whand,      \* writer -> item being written
          disk,       \* items whose records are on disk
          finished,
          lastStart   \* the item whose request was started last
vars == <<ipc, apc, policy, fb, wq, whand, disk, finished, lastStart>>

Init == /\ ipc = [i \in Items |-> "idle"] /\ lastStart = "none" /\ apc = [i \in Items |-> "doing"]
        /\ policy \in [Items -> Outcomes]
        /\ fb = [i \in Items |-> FALSE] /\ wq = <<>> /\ whand = [w \in Writers |-> "none"]
        /\ disk = {} /\ finished = FALSE

Start(i) == /\ ipc[i] = "idle" /\ ipc' = [ipc EXCEPT ![i] = "fetch"] /\ lastStart' = i
            /\ UNCHANGED <<apc, policy, fb, wq, whand, disk, finished>>
\* the response has been fully read by the archiver (ProcessBody reads to EOF): the capture is complete
Capture(i) == /\ ipc[i] = "fetch" /\ ipc' = [ipc EXCEPT ![i] = "captured"]
              /\ apc' = [apc EXCEPT ![i] = IF SyncWait /\ (i \notin Retried \/ WaitRetried) THEN "waiting" ELSE "archived"]
              /\ UNCHANGED <<policy, fb, wq, whand, disk, finished, lastStart>>
LibDiscard(i) == /\ ipc[i] = "captured"
                 /\ IF policy[i] = "reject"
                    THEN ipc' = [ipc EXCEPT ![i] = "dropped"] /\ fb' = [fb EXCEPT ![i] = TRUE] /\ UNCHANGED wq
                    ELSE ipc' = [ipc EXCEPT ![i] = "queued"] /\ wq' = Append(wq, i) /\ UNCHANGED fb
                 /\ UNCHANGED <<apc, policy, whand, disk, finished, lastStart>>
WriterTake(w) == /\ whand[w] = "none" /\ wq # <<>>
                 /\ whand' = [whand EXCEPT ![w] = Head(wq)] /\ wq' = Tail(wq)
                 /\ UNCHANGED <<ipc, apc, policy, fb, disk, finished, lastStart>>
WriterWrite(w) == /\ whand[w] # "none"
                  /\ disk' = disk \cup {whand[w]}
                  /\ ipc' = [ipc EXCEPT ![whand[w]] = "written"]
                  /\ fb' = [fb EXCEPT ![whand[w]] = TRUE]
                  /\ whand' = [whand EXCEPT ![w] = "none"]
                  /\ UNCHANGED <<apc, policy, wq, finished, lastStart>>
Feedback(i) == /\ apc[i] = "waiting" /\ fb[IF OwnFeedback THEN i ELSE lastStart]
               /\ apc' = [apc EXCEPT ![i] = "archived"]
               /\ UNCHANGED <<ipc, policy, fb, wq, whand, disk, finished, lastStart>>
Finish == /\ ~finished /\ \A i \in Items : apc[i] = "archived"
          /\ finished' = TRUE
          /\ UNCHANGED <<ipc, apc, policy, fb, wq, whand, disk, lastStart>>

Next == (\E i \in Items : Start(i) \/ Capture(i) \/ LibDiscard(i) \/ Feedback(i)) \/ (\E w \in Writers : WriterTake(w) \/ WriterWrite(w)) \/ Finish
Spec == Init /\ [][Next]_vars /\ WF_vars(Next)

StoredBeforeFinish == finished => \A i \in Items : policy[i] = "accept" => i \in disk
RejectedNeverStored == \A i \in Items : policy[i] = "reject" => i \notin disk
EventuallyFinished == <>finished
=============================================================================
