------------------------------- MODULE Reactor -------------------------------
(* C12: internal/pkg/reactor at the granularity of its atomic steps.  The reactor is lock free: *)
(* a buffered token channel, a sync.Map (state table), a buffered input channel and one run     *)
(* goroutine.  Every API call is a small program (pc per caller); every channel operation /     *)
(* sync.Map operation is one action; a Go select is a disjunction over its ready cases.         *)
(*                                                                                              *)
(* FixFreeze / FixFeedback select the repaired code (TRUE) or the pinned commit (FALSE):        *)
(*   FixFreeze   - ReceiveInsert / ReceiveFeedback test ctx and freeze before the select        *)
(*   FixFeedback - ReceiveFeedback does Load + CompareAndSwap instead of an unconditional Swap  *)
EXTENDS Integers, Sequences, FiniteSets, TLC

CONSTANTS Max, Ids, Callers, FixFreeze, FixFeedback,
          InputCap     \* capacity of the input channel: Max in the code (a smaller one lets feedback block, seeded as C12 r4-m1)

VARIABLES tokens,      \* tokens in use (len(tokenPool))
          table,       \* ids in the state table
          input,       \* buffered input channel (capacity InputCap = Max)
          delivered,   \* ids handed to the output channel, in order (consumer always reads)
          ctxDone, frozen, inputClosed, crashed,
          runpc,       \* [st |-> "idle" | "hold" | "exited", id |-> held id]
          pc, op, res  \* per caller: program counter, current call [kind, id], last result
rvars == <<tokens, table, input, delivered, ctxDone, frozen, inputClosed, crashed, runpc, pc, op, res>>

NoOp == [kind |-> "none", id |-> "none"]

RInit == /\ tokens = 0 /\ table = {} /\ input = <<>> /\ delivered = <<>>
         /\ ctxDone = FALSE /\ frozen = FALSE /\ inputClosed = FALSE /\ crashed = FALSE
         /\ runpc = [st |-> "idle", id |-> "none"]
         /\ pc = [c \in Callers |-> "idle"] /\ op = [c \in Callers |-> NoOp] /\ res = [c \in Callers |-> "none"]

Goto(c, l) == pc' = [pc EXCEPT ![c] = l]
Return(c, r) == /\ pc' = [pc EXCEPT ![c] = "ret"] /\ res' = [res EXCEPT ![c] = r]
Frozen == frozen \/ ctxDone           \* freezeCtx is derived from ctx

\* ---- call entry: kind \in {"insert","feedback","finish","freeze","stop"}
Call(c, kind, id) ==
  /\ pc[c] = "idle"
  /\ op' = [op EXCEPT ![c] = [kind |-> kind, id |-> id]]
  /\ res' = [res EXCEPT ![c] = "none"]
  /\ Goto(c, CASE kind = "insert" -> IF FixFreeze THEN "ins.pre" ELSE "ins.sel"
               [] kind = "feedback" -> IF FixFreeze THEN "fb.pre" ELSE "fb.swap"
               [] kind = "finish" -> "fin.del"
               [] kind = "freeze" -> "frz"
               [] kind = "stop" -> "stop.cancel")
  /\ UNCHANGED <<tokens, table, input, delivered, ctxDone, frozen, inputClosed, crashed, runpc>>

\* the caller picks up its result and is idle again
Done(c) == /\ pc[c] = "ret" /\ Goto(c, "idle")
           /\ UNCHANGED <<tokens, table, input, delivered, ctxDone, frozen, inputClosed, crashed, runpc, op, res>>

\* ---- ReceiveInsert
InsertPre(c) == /\ pc[c] = "ins.pre"
                /\ IF ctxDone THEN Return(c, "shutdown")
                   ELSE IF frozen THEN Return(c, "frozen")
                   ELSE Goto(c, "ins.sel") /\ UNCHANGED res
                /\ UNCHANGED <<tokens, table, input, delivered, ctxDone, frozen, inputClosed, crashed, runpc, op>>
InsertSelect(c) ==
  /\ pc[c] = "ins.sel"
  /\ \/ ctxDone /\ Return(c, "shutdown") /\ UNCHANGED tokens
     \/ Frozen /\ Return(c, "frozen") /\ UNCHANGED tokens
     \/ tokens < Max /\ tokens' = tokens + 1 /\ Goto(c, "ins.store") /\ UNCHANGED res
  /\ UNCHANGED <<table, input, delivered, ctxDone, frozen, inputClosed, crashed, runpc, op>>
InsertStore(c) ==
  /\ pc[c] = "ins.store"
  /\ IF op[c].id \in table
     THEN crashed' = TRUE /\ UNCHANGED <<table, pc>>          \* panic("item already present in reactor")
     ELSE table' = table \cup {op[c].id} /\ Goto(c, "ins.send") /\ UNCHANGED crashed
  /\ UNCHANGED <<tokens, input, delivered, ctxDone, frozen, inputClosed, runpc, op, res>>
InsertSend(c) ==
  /\ pc[c] = "ins.send"
  /\ IF inputClosed THEN crashed' = TRUE /\ UNCHANGED <<input, pc, res>>     \* send on closed channel
     ELSE /\ Len(input) < InputCap /\ input' = Append(input, op[c].id) /\ Return(c, "nil") /\ UNCHANGED crashed
  /\ UNCHANGED <<tokens, table, delivered, ctxDone, frozen, inputClosed, runpc, op>>

\* ---- ReceiveFeedback
FeedbackPre(c) == /\ pc[c] = "fb.pre"
                  /\ IF ctxDone THEN Return(c, "shutdown")
                     ELSE IF frozen THEN Return(c, "frozen")
                     ELSE Goto(c, "fb.swap") /\ UNCHANGED res
                  /\ UNCHANGED <<tokens, table, input, delivered, ctxDone, frozen, inputClosed, crashed, runpc, op>>
FeedbackSwap(c) ==
  /\ pc[c] = "fb.swap"
  /\ IF op[c].id \in table
     THEN Goto(c, "fb.sel") /\ UNCHANGED <<table, res>>
     ELSE /\ Return(c, "notpresent")
          /\ table' = IF FixFeedback THEN table ELSE table \cup {op[c].id}      \* Swap stores even when absent
  /\ UNCHANGED <<tokens, input, delivered, ctxDone, frozen, inputClosed, crashed, runpc, op>>
FeedbackSelect(c) ==
  /\ pc[c] = "fb.sel"
  /\ \/ ctxDone /\ Return(c, "shutdown") /\ UNCHANGED <<input, crashed>>
     \/ Frozen /\ Return(c, "frozen") /\ UNCHANGED <<input, crashed>>
     \/ inputClosed /\ crashed' = TRUE /\ UNCHANGED <<input, pc, res>>
     \/ ~inputClosed /\ Len(input) < InputCap /\ input' = Append(input, op[c].id) /\ Return(c, "nil") /\ UNCHANGED crashed
  /\ UNCHANGED <<tokens, table, delivered, ctxDone, frozen, inputClosed, runpc, op>>

\* ---- MarkAsFinished
FinishDelete(c) ==
  /\ pc[c] = "fin.del"
  /\ IF op[c].id \in table
     THEN table' = table \ {op[c].id} /\ Goto(c, "fin.rel") /\ UNCHANGED res
     ELSE Return(c, "notfound") /\ UNCHANGED table
  /\ UNCHANGED <<tokens, input, delivered, ctxDone, frozen, inputClosed, crashed, runpc, op>>
FinishRelease(c) ==
  /\ pc[c] = "fin.rel"
  /\ tokens > 0 /\ tokens' = tokens - 1          \* <-tokenPool blocks while the pool is empty
  /\ Return(c, "nil")
  /\ UNCHANGED <<table, input, delivered, ctxDone, frozen, inputClosed, crashed, runpc, op>>

\* ---- Freeze / Stop
FreezeStep(c) == /\ pc[c] = "frz" /\ frozen' = TRUE /\ Return(c, "nil")
                 /\ UNCHANGED <<tokens, table, input, delivered, ctxDone, inputClosed, crashed, runpc, op>>
StopCancel(c) == /\ pc[c] = "stop.cancel" /\ ctxDone' = TRUE /\ Goto(c, "stop.wait")
                 /\ UNCHANGED <<tokens, table, input, delivered, frozen, inputClosed, crashed, runpc, op, res>>
StopWait(c) == /\ pc[c] = "stop.wait" /\ runpc.st = "exited" /\ Goto(c, "stop.close")
               /\ UNCHANGED <<tokens, table, input, delivered, ctxDone, frozen, inputClosed, crashed, runpc, op, res>>
StopClose(c) == /\ pc[c] = "stop.close" /\ inputClosed' = TRUE /\ Return(c, "nil")
                /\ UNCHANGED <<tokens, table, input, delivered, ctxDone, frozen, crashed, runpc, op>>

\* ---- run goroutine
RunTake == /\ runpc.st = "idle"
           /\ \/ ctxDone /\ runpc' = [st |-> "exited", id |-> "none"] /\ UNCHANGED input
              \/ input # <<>> /\ runpc' = [st |-> "hold", id |-> Head(input)] /\ input' = Tail(input)
           /\ UNCHANGED <<tokens, table, delivered, ctxDone, frozen, inputClosed, crashed, pc, op, res>>
RunSend == /\ runpc.st = "hold"
           /\ \/ ctxDone /\ runpc' = [st |-> "exited", id |-> "none"] /\ UNCHANGED delivered   \* item dropped on stop
              \/ delivered' = Append(delivered, runpc.id) /\ runpc' = [st |-> "idle", id |-> "none"]  \* consumer always reads
           /\ UNCHANGED <<tokens, table, input, ctxDone, frozen, inputClosed, crashed, pc, op, res>>

Step(c) == \/ InsertPre(c) \/ InsertSelect(c) \/ InsertStore(c) \/ InsertSend(c)
           \/ FeedbackPre(c) \/ FeedbackSwap(c) \/ FeedbackSelect(c)
           \/ FinishDelete(c) \/ FinishRelease(c)
           \/ FreezeStep(c) \/ StopCancel(c) \/ StopWait(c) \/ StopClose(c)
Internal == (\E c \in Callers : Step(c)) \/ RunTake \/ RunSend

InStore == {c \in Callers : pc[c] = "ins.store"}
InRelease == {c \in Callers : pc[c] = "fin.rel"}
=============================================================================
