------------------------------ MODULE Seencheck ------------------------------
(* C08: the local seen-store (internal/pkg/preprocessor/seencheck) at the granularity of its      *)
(* database operations.  SeencheckItem walks the nodes at the working depth; for each node it does *)
(* a Get and then - as a separate step - a Set (first sighting, or promotion asset -> seed) or     *)
(* marks the node Seen.  Several preprocessor workers run it concurrently on different seeds.     *)
(* Types are ordered none < asset < seed; the store only ever moves up.                          *)
EXTENDS Integers, Sequences, FiniteSets, TLC

CONSTANTS Atomic,           \* TRUE: lookup and record are one step (repaired code); FALSE: two steps (pinned commit)
          Workers, Jobs     \* Jobs[w]: sequence of calls, each a sequence of nodes [c |-> canon, t |-> "asset" | "seed"]

Rank(t) == CASE t = "none" -> 0 [] t = "asset" -> 1 [] t = "seed" -> 2
Canons == UNION {UNION {{Jobs[w][i][k].c : k \in 1..Len(Jobs[w][i])} : i \in 1..Len(Jobs[w])} : w \in Workers}

VARIABLES store,    \* canon -> type
          ci, ni,   \* per worker: current call index, current node index
          got,      \* per worker: result of the Get for the current node ("pending" before the Get)
          seen,     \* per worker: set of <<call, node>> marked Seen
          rec,      \* canon -> highest type ever recorded by a completed Set (history; the store itself can be overwritten)
          lo,       \* per worker: rec as it was when the current call started (what must be honoured)
          hi        \* per worker: per canon the highest type any call had started to record before now
vars == <<store, ci, ni, got, seen, rec, lo, hi>>

Init == /\ store = [c \in Canons |-> "none"]
        /\ ci = [w \in Workers |-> 1] /\ ni = [w \in Workers |-> 1]
        /\ got = [w \in Workers |-> "pending"] /\ seen = [w \in Workers |-> {}]
        /\ rec = [c \in Canons |-> "none"]
        /\ lo = [w \in Workers |-> [c \in Canons |-> "none"]]
        /\ hi = [w \in Workers |-> [c \in Canons |-> "none"]]

Active(w) == ci[w] <= Len(Jobs[w])
Node(w) == Jobs[w][ci[w]][ni[w]]
Up(a, b) == IF Rank(a) >= Rank(b) THEN a ELSE b

\* types that calls in progress (or this one) may be recording for canon c
Potential(c) ==
  LET ts == UNION {{Jobs[v][ci[v]][k].t : k \in {j \in 1..Len(Jobs[v][ci[v]]) : Jobs[v][ci[v]][j].c = c}}
                   : v \in {u \in Workers : Active(u)}}
  IN IF "seed" \in ts THEN "seed" ELSE IF "asset" \in ts THEN "asset" ELSE "none"

Get(w) == /\ ~Atomic /\ Active(w) /\ got[w] = "pending"
          /\ got' = [got EXCEPT ![w] = store[Node(w).c]]
          /\ UNCHANGED <<store, ci, ni, seen, rec, lo, hi>>

Advance(w) ==
  IF ni[w] < Len(Jobs[w][ci[w]])
  THEN ni' = [ni EXCEPT ![w] = @ + 1] /\ UNCHANGED <<ci, lo>>
  ELSE /\ ci' = [ci EXCEPT ![w] = @ + 1] /\ ni' = [ni EXCEPT ![w] = 1]
       /\ lo' = [lo EXCEPT ![w] = rec']         \* the next call starts now: everything recorded so far must be honoured

\* the second step: Set / promote / mark Seen, decided from what the lookup returned
Decide(w, g) ==
  /\ LET n == Node(w) IN
     IF g = "none" \/ (g = "asset" /\ n.t = "seed")
     THEN /\ store' = [store EXCEPT ![n.c] = n.t]            \* DB.Set overwrites
          /\ rec' = [rec EXCEPT ![n.c] = Up(@, n.t)]
          /\ UNCHANGED seen
     ELSE /\ seen' = [seen EXCEPT ![w] = @ \cup {<<ci[w], ni[w]>>}]
          /\ UNCHANGED <<store, rec>>
  /\ got' = [got EXCEPT ![w] = "pending"]
  /\ hi' = [v \in Workers |-> [c \in Canons |-> Up(hi[v][c], Up(store'[c], Potential(c)))]]
  /\ Advance(w)

Act(w) == ~Atomic /\ Active(w) /\ got[w] # "pending" /\ Decide(w, got[w])
GetAct(w) == Atomic /\ Active(w) /\ Decide(w, store[Node(w).c])

Next == \E w \in Workers : Get(w) \/ Act(w) \/ GetAct(w)
Spec == Init /\ [][Next]_vars

\* (i) a record that was complete when the call started is honoured
MustSeen(w, i, k) ==
  LET n == Jobs[w][i][k] IN Rank(lo[w][n.c]) >= 2 \/ (Rank(lo[w][n.c]) >= 1 /\ n.t = "asset")
HonourOK == \A w \in Workers : Active(w) =>
              \A k \in 1..(ni[w] - 1) : MustSeen(w, ci[w], k) => <<ci[w], k>> \in seen[w]
\* (ii) nothing is skipped unless a record for it existed (possibly from an overlapping call or an earlier node)
SkipOK == \A w \in Workers : \A p \in seen[w] :
             LET n == Jobs[w][p[1]][p[2]] IN
             \/ Rank(hi[w][n.c]) >= 2
             \/ (n.t = "asset" /\ Rank(hi[w][n.c]) >= 1)
             \/ \E j \in 1..(p[2] - 1) : Jobs[w][p[1]][j].c = n.c
=============================================================================
