------------------------------- MODULE C04_Mon -------------------------------
(* Monitor for C04 over the traces of two processes on one job directory: run1 (killed or stopped    *)
(* at some point) followed by run2 (restart).  URLs that were in the queue and had not been reported  *)
(* finished in run1 are requested again in run2 and none stays handed-out; URLs reported finished in  *)
(* run1 have a capture in the WARC files run1 left, which parse record by record (an incomplete last  *)
(* member is allowed).                                                                              *)
EXTENDS Integers, Sequences, FiniteSets, TraceLib

VARIABLES l, phase, queued, fin1, req2, caps, needs
vars == <<l, phase, queued, fin1, req2, caps, needs>>
Init == l = 1 /\ phase = "run1" /\ queued = <<>> /\ fin1 = {} /\ req2 = {} /\ caps = {} /\ needs = <<>>

Next ==
  /\ l <= TraceLen
  /\ LET e == TraceLog[l] IN
     CASE e.ev = "c04.phase" -> phase' = e.phase /\ UNCHANGED <<queued, fin1, req2, caps, needs>>
       [] e.ev = "queued" -> queued' = (e.id :> e.u) @@ queued /\ UNCHANGED <<phase, fin1, req2, caps, needs>>
       [] e.ev = "lq.finish.recv" /\ phase = "run1" -> fin1' = fin1 \cup {e.id} /\ UNCHANGED <<phase, queued, req2, caps, needs>>
       [] e.ev = "req" /\ phase = "run2" -> req2' = req2 \cup {e.url} /\ UNCHANGED <<phase, queued, fin1, caps, needs>>
       [] e.ev = "site.assets" ->   \* the page requisites of a seed (all answer 200): part of "its captures"
            /\ needs' = (e.id :> {e.urls[i] : i \in 1..Len(e.urls)}) @@ needs /\ UNCHANGED <<phase, queued, fin1, req2, caps>>
       [] e.ev = "warc.left" ->
            /\ Check(e.bad = 0 /\ ~HasKey(e, "err"), l, "WARC left on disk is not readable record by record")
            /\ caps' = caps \cup {e.captures[i].uri : i \in 1..Len(e.captures)}
            /\ UNCHANGED <<phase, queued, fin1, req2, needs>>
       [] e.ev = "rows" /\ e.when = "after-run2" ->
            /\ \A id \in DOMAIN queued :
                 IF id \in fin1
                 THEN /\ Check(queued[id] \in caps, l, "URL reported finished before the crash has no capture in the WARC files left on disk id=" \o id)
                      /\ Check(id \notin DOMAIN needs \/ needs[id] \subseteq caps, l, "URL reported finished before the crash: a page requisite fetched for it has no capture in the WARC files left on disk id=" \o id)
                 ELSE Check(queued[id] \in req2, l, "URL that was queued and not finished is not crawled again after the restart id=" \o id)
            /\ Check(\A i \in 1..Len(e.rows) : e.rows[i].status # "CLAIMED", l, "a row stays stranded as handed-out (CLAIMED) after the restarted crawl went idle")
            /\ UNCHANGED <<phase, queued, fin1, req2, caps, needs>>
       [] e.ev = "init.reset" ->   \* the restart step alone, called right after the claim (no second in between)
            /\ Check(~HasKey(e, "err") /\ e.still_claimed = <<>>, l, "a row handed out just before the restart stays handed-out (CLAIMED) after the restart step")
            /\ UNCHANGED <<phase, queued, fin1, req2, caps, needs>>
       [] OTHER -> UNCHANGED <<phase, queued, fin1, req2, caps, needs>>
  /\ l' = l + 1
Spec == Init /\ [][Next]_vars
Marked == Mark(l)
=============================================================================
