------------------------------- MODULE C09_Mon -------------------------------
(* Monitor for C09, from the statement.  Every event is one input (text, parent) normalised four  *)
(* times on fresh objects, the result normalised again, and shape facts measured on the output    *)
(* text with plain string operations.                                                            *)
(*   determinism : the four results agree, and agree with every earlier event for the same input *)
(*   idempotence : an accepted result is accepted again and maps to itself, unless it begins or   *)
(*                 ends with a quote character (those are stripped deliberately)                  *)
(*   shape       : accepted => http(s), dotted non-loopback host, no fragment                     *)
(*   resolution  : for inputs built from tokens, the output tokens are Resolve(base, ref) -       *)
(*                 including order and multiplicity of the query parameters                       *)
EXTENDS UrlAlgebra, TraceLib

VARIABLES l, memo
vars == <<l, memo>>

Init == l = 1 /\ memo = <<>>

Key(e) == <<e.input, e.parent>>
ToUrl(t) == [scheme |-> t.scheme, host |-> t.host, port |-> t.port, path |-> t.path, query |-> t.query]
ToRef(t) == [kind |-> t.kind, scheme |-> t.scheme, host |-> t.host, port |-> t.port, segs |-> t.segs, hasq |-> t.hasq, query |-> t.query]
Result(e) == IF e.rejected THEN "<rejected>" ELSE e.out

Next ==
  /\ l <= TraceLen
  /\ LET e == TraceLog[l] IN
     /\ Check(e.same, l, "same input gave different results (" \o e.cls \o ")")
     /\ Check(Key(e) \notin DOMAIN memo \/ memo[Key(e)] = Result(e), l, "same input gave a different result later (" \o e.cls \o ")")
     \* a result that itself begins or ends with a quote character is exempt: re-normalising strips it (deliberate)
     /\ Check(e.rejected \/ e.quoted \/ (e.again_ok /\ e.again_eq), l, "canonical form is not a fixed point (" \o e.cls \o ")")
     /\ Check(e.rejected \/ (e.scheme_ok /\ e.host_dotted /\ ~e.loopback /\ ~e.fragment), l, "accepted result is not an absolute http(s) URL with dotted non-loopback host and no fragment (" \o e.cls \o ")")
     /\ Check(e.cls # "structured" \/ ~e.rejected, l, "well-formed reference rejected")
     /\ Check(e.cls # "structured" \/ e.rejected \/ ~HasKey(e, "basetok") \/
              ToUrl(e.basetok) = Mk(e.base.scheme, e.base.host, e.base.port, e.base.path, e.base.query), l,
              "parent URL changed by canonicalisation (query order / multiplicity or path)")
     /\ Check(e.cls # "structured" \/ e.rejected \/ (HasKey(e, "tok") /\ ToUrl(e.tok) = Resolve(ToUrl(e.base), ToRef(e.ref))), l,
              "reference resolved differently from the URL standard / query parameters reordered")
     /\ memo' = IF Key(e) \in DOMAIN memo THEN memo ELSE (Key(e) :> Result(e)) @@ memo
  /\ l' = l + 1

Spec == Init /\ [][Next]_vars
Marked == Mark(l)
=============================================================================
