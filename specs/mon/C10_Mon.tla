------------------------------- MODULE C10_Mon -------------------------------
(* Monitor for C10: every input that was started (x.start) ended (x.end) with an ordinary outcome:   *)
(* links or an error - never a panic, never the deadline.  A start without its end means the process  *)
(* died or hung inside the code under test.                                                          *)
EXTENDS Integers, Sequences, TraceLib

VARIABLES l, open
vars == <<l, open>>
Init == l = 1 /\ open = ""

Next ==
  /\ l <= TraceLen
  /\ LET e == TraceLog[l] IN
     CASE e.ev = "x.start" ->
            /\ Check(open = "", l, "input never returned (crash or hang): " \o open)
            /\ open' = e.id
       [] e.ev = "x.end" ->
            /\ Check(e.outcome = "ok", l, "input made the code under test " \o e.outcome \o " (" \o e.type \o ")")
            /\ open' = ""
       [] e.ev = "x.done" -> Check(open = "", l, "input never returned (crash or hang): " \o open) /\ UNCHANGED open
       [] OTHER -> UNCHANGED open
  /\ l' = l + 1
Spec == Init /\ [][Next]_vars
Marked == Mark(l)
=============================================================================
