------------------------------- MODULE C08_Mon -------------------------------
(* Monitor for C08 (local seen-store), from the statement.  Types are ordered none < asset < seed.  *)
(* For a SeencheckItem call C and a node of type t with canonical URL c:                           *)
(*   lo = highest type recorded for c by calls that had RETURNED before C was called, or implied  *)
(*        by an earlier node of C itself                      -> what must be honoured             *)
(*   hi = lo joined with everything calls overlapping C may have recorded  -> what may be honoured *)
(*   must be skipped:  lo = seed, or lo >= asset and t = asset                                     *)
(*   may be skipped :  hi = seed, or hi >= asset and t = asset                                     *)
(* A node that is not skipped records its type.  "tree" events: at most one non-seed node per     *)
(* canonical URL is left to be fetched.                                                           *)
EXTENDS Integers, Sequences, FiniteSets, TraceLib

VARIABLES l, rec, open
vars == <<l, rec, open>>

Rank(t) == CASE t = "none" -> 0 [] t = "asset" -> 1 [] t = "seed" -> 2
Up(a, b) == IF Rank(a) >= Rank(b) THEN a ELSE b
Lookup(f, c) == IF c \in DOMAIN f THEN f[c] ELSE "none"
\* join of two partial maps canon -> type
Join(f, g) == [c \in DOMAIN f \cup DOMAIN g |-> Up(Lookup(f, c), Lookup(g, c))]
\* partial map of what a call's nodes could record
\* (the highest type among the nodes from index k on that carry the URL; pages can have hundreds of nodes, so no recursion)
TypeAmong(nodes, S) == IF S = {} THEN "none" ELSE IF \E j \in S : nodes[j].t = "seed" THEN "seed"
                       ELSE IF \E j \in S : nodes[j].t = "asset" THEN "asset" ELSE "none"
NodesMap(nodes, k) == [c \in {nodes[j].c : j \in k..Len(nodes)} |-> TypeAmong(nodes, {j \in k..Len(nodes) : nodes[j].c = c})]

Init == l = 1 /\ rec = <<>> /\ open = <<>>     \* open: id -> [nodes, lo, over]

RECURSIVE Judge(_, _, _, _, _, _, _)
\* walks the nodes of a returning call; own: what the earlier nodes of this call imply
\* (honour = FALSE for a call whose request to the store was made to fail by the harness: fetching again is then
\*  the safe side and not judged, but still nothing may be skipped without a record)
Judge(nodes, st, k, lo, over, line, honour) ==
  IF k > Len(nodes) THEN TRUE
  ELSE LET n == nodes[k]
           own == TypeAmong(nodes, {j \in 1..(k - 1) : nodes[j].c = n.c})
           lok == Up(Lookup(lo, n.c), own)
           hik == Up(lok, Lookup(over, n.c))
           must == Rank(lok) >= 2 \/ (Rank(lok) >= 1 /\ n.t = "asset")
           may == Rank(hik) >= 2 \/ (Rank(hik) >= 1 /\ n.t = "asset")
       IN /\ Check(~honour \/ ~must \/ st[k] = "Seen", line, "URL recorded as seen before this check was fetched again (" \o n.t \o " over " \o lok \o ")")
          /\ Check(st[k] # "Seen" \/ may, line, "item skipped as seen although the store had no such record (" \o n.t \o " over " \o hik \o ")")
          /\ Judge(nodes, st, k + 1, lo, over, line, honour)

Recorded(nodes, st) ==
  LET idx == {k \in 1..Len(nodes) : st[k] # "Seen"}
  IN NodesMap([k \in 1..Len(nodes) |-> IF k \in idx THEN nodes[k] ELSE [c |-> nodes[k].c, t |-> "none"]], 1)

FreshNonSeed(nodes) == {k \in 2..Len(nodes) : nodes[k].st = "Fresh"}

Next ==
  /\ l <= TraceLen
  /\ LET e == TraceLog[l] IN
     CASE e.ev = "call" ->
            LET nm == NodesMap(e.nodes, 1)
                others == IF DOMAIN open = {} THEN <<>>
                          ELSE LET RECURSIVE JoinAll(_)
                                   JoinAll(S) == IF S = {} THEN <<>> ELSE LET i == CHOOSE x \in S : TRUE IN Join(NodesMap(open[i].nodes, 1), JoinAll(S \ {i}))
                               IN JoinAll(DOMAIN open)
            IN /\ open' = (e.id :> [nodes |-> e.nodes, lo |-> rec, over |-> others])
                          @@ [i \in DOMAIN open |-> [open[i] EXCEPT !.over = Join(@, nm)]]
               /\ UNCHANGED rec
       [] e.ev = "ret" ->
            LET o == open[e.id]
                inj == HasKey(e, "injected") /\ e.injected
            IN
            /\ Check(inj \/ ~HasKey(e, "err"), l, "SeencheckItem returned an error")
            /\ Judge(o.nodes, e.st, 1, o.lo, o.over, l, ~inj)
            /\ rec' = IF inj THEN rec ELSE Join(rec, Recorded(o.nodes, e.st))
            /\ open' = [i \in DOMAIN open \ {e.id} |-> open[i]]
       [] e.ev = "tree" ->
            /\ Check(\A i, j \in FreshNonSeed(e.nodes) : e.nodes[i].u = e.nodes[j].u => i = j, l,
                     "the same URL is left to be fetched by two non-seed nodes of one tree")
            /\ UNCHANGED <<rec, open>>
       [] OTHER -> UNCHANGED <<rec, open>>
  /\ l' = l + 1

Spec == Init /\ [][Next]_vars
Marked == Mark(l)
=============================================================================
