------------------------------- MODULE C14_Mon -------------------------------
(* Monitor for C14, from the statement.  Events of one scenario, totally ordered:                 *)
(*   call/ret (controller c, pause | resume), stuck (a call did not return under the watchdog),   *)
(*   sub/take/ack/woken/exit (worker w), stop, wstuck (workers did not leave after stop),          *)
(*   snap (quiescent: IsPaused() and every worker's state).                                       *)
(* Checked: a worker takes no work between acknowledging a pause and being woken; it is woken only *)
(* by a resume (a Resume call running, or returned since the acknowledgement, or shutdown);        *)
(* when the pipeline is paused every live worker has acknowledged, when it is not nobody waits;   *)
(* no caller and no worker stays blocked.                                                         *)
EXTENDS Integers, Sequences, FiniteSets, TraceLib

VARIABLES l, acked, ackAt, resActive, lastResRet, stopped
vars == <<l, acked, ackAt, resActive, lastResRet, stopped>>

Init == l = 1 /\ acked = {} /\ ackAt = <<>> /\ resActive = 0 /\ lastResRet = 0 /\ stopped = FALSE

Live(ws) == {w \in DOMAIN ws : ws[w] # "exited"}

Next ==
  /\ l <= TraceLen
  /\ LET e == TraceLog[l] IN
     CASE e.ev = "start" ->
            /\ acked' = {} /\ ackAt' = <<>> /\ resActive' = 0 /\ lastResRet' = 0 /\ stopped' = FALSE
       [] e.ev = "call" ->
            /\ resActive' = IF e.op = "resume" THEN resActive + 1 ELSE resActive
            /\ UNCHANGED <<acked, ackAt, lastResRet, stopped>>
       [] e.ev = "ret" ->
            /\ resActive' = IF e.op = "resume" THEN resActive - 1 ELSE resActive
            /\ lastResRet' = IF e.op = "resume" THEN l ELSE lastResRet
            /\ UNCHANGED <<acked, ackAt, stopped>>
       [] e.ev = "stuck" ->
            /\ Check(FALSE, l, e.op \o " call blocked forever")
            /\ UNCHANGED <<acked, ackAt, resActive, lastResRet, stopped>>
       [] e.ev = "wstuck" ->
            /\ Check(FALSE, l, "workers still blocked after shutdown")
            /\ UNCHANGED <<acked, ackAt, resActive, lastResRet, stopped>>
       [] e.ev = "ack" ->
            /\ acked' = acked \cup {e.w} /\ ackAt' = (e.w :> l) @@ ackAt
            /\ UNCHANGED <<resActive, lastResRet, stopped>>
       [] e.ev = "woken" ->
            /\ Check(e.w \in acked, l, "woken without acknowledgement")
            /\ Check(e.w \notin acked \/ resActive > 0 \/ lastResRet > ackAt[e.w], l, "worker went on without any resume")
            /\ acked' = acked \ {e.w}
            /\ UNCHANGED <<ackAt, resActive, lastResRet, stopped>>
       [] e.ev = "take" ->
            /\ Check(e.w \notin acked, l, "worker took work between acknowledging the pause and resume")
            /\ UNCHANGED <<acked, ackAt, resActive, lastResRet, stopped>>
       [] e.ev = "exit" ->
            /\ acked' = acked \ {e.w}
            /\ UNCHANGED <<ackAt, resActive, lastResRet, stopped>>
       [] e.ev = "stop" ->
            /\ stopped' = TRUE /\ UNCHANGED <<acked, ackAt, resActive, lastResRet>>
       [] e.ev = "snap" ->
            /\ Check(e.exp = "any" \/ e.paused = (e.exp = "true"), l, "IsPaused() differs from the last completed call")
            /\ Check(~e.paused \/ \A w \in Live(e.ws) : e.ws[w] = "acked", l, "paused but a live worker has not acknowledged (still working)")
            /\ Check(e.paused \/ \A w \in Live(e.ws) : e.ws[w] # "acked", l, "not paused but a worker is still waiting to be resumed")
            /\ UNCHANGED <<acked, ackAt, resActive, lastResRet, stopped>>
       [] OTHER -> UNCHANGED <<acked, ackAt, resActive, lastResRet, stopped>>
  /\ l' = l + 1

Spec == Init /\ [][Next]_vars
Marked == Mark(l)
=============================================================================
