------------------------------- MODULE C13P_Mon -------------------------------
(* Monitor for C13 on the real pipeline (the archiver's use of the limiter), requests strictly         *)
(* sequential: after a host answered 429 / 403 / 408 / 425, the first request for ANOTHER URL of that   *)
(* host reaches it no earlier than 5 s after that answer left the origin (retries of the refused URL     *)
(* itself do not wait for the limiter).  Times are microseconds of one process's clock; the answer is    *)
(* stamped before its first byte leaves, the request when it arrives, so lateness only helps the code.   *)
EXTENDS Integers, Sequences, FiniteSets, TraceLib

VARIABLES l, until, refused
vars == <<l, until, refused>>
Init == l = 1 /\ until = <<>> /\ refused = <<>>

\* what the archiver reports as rate limiting: 429 / 408 / 425 and a 403 that is a challenge page
Penalised(e) == e.status \in {429, 408, 425} \/ (e.status = 403 /\ e.cf)

Next ==
  /\ l <= TraceLen
  /\ LET e == TraceLog[l] IN
     CASE e.ev = "resp" /\ Penalised(e) ->
            /\ until' = (e.host :> e.us + 5000000) @@ until
            /\ refused' = (e.host :> e.uri) @@ refused
       [] e.ev = "req" /\ e.host \in DOMAIN until /\ e.uri # refused[e.host] ->
            /\ Check(e.us >= until[e.host], l, "a request reached a host before the penalty imposed by its 429 / 403 / 408 / 425 answer was over")
            /\ UNCHANGED <<until, refused>>
       [] OTHER -> UNCHANGED <<until, refused>>
  /\ l' = l + 1
Spec == Init /\ [][Next]_vars
Marked == Mark(l)
=============================================================================
