------------------------------- MODULE C02_Mon -------------------------------
(* Monitor for C02, from the statement.  Events of one pipeline run with synchronous WARC writing:  *)
(*   resp(url, n, status, sha1, len, cf)   the origin finished sending its n-th answer for url         *)
(*   arch.item.response(seed, u, status)  the crawler received an answer for u while working on seed   *)
(*   disk(records)                        the WARC directory as read by the independent reader, taken   *)
(*                                        inside the finisher before the finish message (new records)   *)
(*   fin.finish(id)                       the seed is about to be reported finished                     *)
(*   hold.begin / hold.end(seed)          the harness is holding a WARC write of that seed               *)
(* Every accepted response fetched for a finished seed is on disk as request + response (or           *)
(* identical-payload revisit) for exactly that URL, status, length and SHA-1; rejected responses are  *)
(* never on disk; every record is a complete, independently decompressible member.                    *)
EXTENDS Integers, Sequences, FiniteSets, TraceLib

VARIABLES l, discard, served, nfetch, fetches, disk, holding
vars == <<l, discard, served, nfetch, fetches, disk, holding>>

Init == l = 1 /\ discard = {} /\ served = <<>> /\ nfetch = <<>> /\ fetches = <<>> /\ disk = {} /\ holding = {}

SeqSet(s) == {s[i] : i \in 1..Len(s)}
Get(f, k, d) == IF k \in DOMAIN f THEN f[k] ELSE d
Accepted(s) == s.status \notin discard /\ ~(s.status = 403 /\ s.cf)

Captured(u, s) ==
  /\ \E r \in disk : r.type = "request" /\ r.uri = u
  /\ \E r \in disk : /\ r.uri = u /\ r.status = s.status
                     /\ \/ (r.type = "response" /\ r.sha1 = s.sha1 /\ r.len = s.len)
                        \/ (r.type = "revisit" /\ r.pdhex = s.sha1)

Next ==
  /\ l <= TraceLen
  /\ LET e == TraceLog[l] IN
     CASE e.ev = "c02.cfg" -> discard' = SeqSet(e.discard) /\ UNCHANGED <<served, nfetch, fetches, disk, holding>>
       [] e.ev = "resp" ->
            /\ served' = (<<e.url, e.n>> :> [status |-> e.status, sha1 |-> e.sha1, len |-> e.len, cf |-> e.cf]) @@ served
            /\ UNCHANGED <<discard, nfetch, fetches, disk, holding>>
       [] e.ev = "arch.item.response" /\ HasKey(e, "status") ->
            LET k == Get(nfetch, e.u, 0) + 1 IN
            /\ nfetch' = (e.u :> k) @@ nfetch
            /\ fetches' = (e.seed :> Append(Get(fetches, e.seed, <<>>), <<e.u, k>>)) @@ fetches
            /\ UNCHANGED <<discard, served, disk, holding>>
       [] e.ev = "disk" ->
            /\ Check(\A i \in 1..Len(e.records) : e.records[i].complete /\ ~HasKey(e.records[i], "err"), l,
                     "a WARC member is not a complete, independently readable record")
            /\ disk' = disk \cup SeqSet(e.records)
            /\ Check(e.why # "stopped" \/ \A r \in disk' : (r.type \in {"response", "revisit"}) =>
                        ~\E k \in DOMAIN served : k[1] = r.uri /\ served[k].status = r.status /\ ~Accepted(served[k]), l,
                     "a response the discard policy rejects was written to the WARC")
            /\ UNCHANGED <<discard, served, nfetch, fetches, holding>>
       [] e.ev = "fin.finish" ->
            /\ Check(e.id \notin holding, l, "seed reported finished while one of its WARC writes was still being held")
            /\ LET fs == Get(fetches, e.id, <<>>) IN
               \A i \in 1..Len(fs) :
                 LET key == fs[i] IN
                 IF key \in DOMAIN served
                 THEN Check(~Accepted(served[key]) \/ Captured(key[1], served[key]), l,
                            "accepted response not in the WARC (complete, same URL, status, length, SHA-1) when the seed is finished")
                 ELSE Check(FALSE, l, "HARNESS: response fetched but never logged by the origin")
            /\ UNCHANGED <<discard, served, nfetch, fetches, disk, holding>>
       [] e.ev = "hold.begin" -> holding' = holding \cup {e.seed} /\ UNCHANGED <<discard, served, nfetch, fetches, disk>>
       [] e.ev = "hold.end" -> holding' = holding \ {e.seed} /\ UNCHANGED <<discard, served, nfetch, fetches, disk>>
       [] e.ev = "warc.files" ->
            /\ Check(e.open = <<>>, l, "a .open WARC file is left after stop")
            /\ UNCHANGED <<discard, served, nfetch, fetches, disk, holding>>
       [] OTHER -> UNCHANGED <<discard, served, nfetch, fetches, disk, holding>>
  /\ l' = l + 1

Spec == Init /\ [][Next]_vars
Marked == Mark(l)
=============================================================================
