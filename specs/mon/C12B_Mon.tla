------------------------------- MODULE C12B_Mon -------------------------------
(* Monitor for C12 at configured sizes (one record per sequential bulk scenario of the real     *)
(* reactor, see harness c12bulk), from the statement: a token is taken exactly when a seed is    *)
(* accepted and given back exactly when it is marked finished; never more seeds in flight than   *)
(* tokens; feeding a tracked seed back never blocks and costs no token - whatever the number of  *)
(* tokens and whichever object carries the seed's ID; every accepted seed reaches the output.    *)
EXTENDS Integers, Sequences, TraceLib

VARIABLES l
vars == <<l>>
Init == l = 1

Next == /\ l <= TraceLen
        /\ LET e == TraceLog[l] IN
           IF e.ev = "bulk"
           THEN /\ Check(e.insert_stuck = 0 /\ e.accepted = e.max, l, "an insert was not accepted although a token was free")
                /\ Check(~e.extra_accepted_while_full, l, "more seeds accepted than there are tokens")
                /\ Check(e.delivered_fill = e.accepted, l, "an accepted seed did not reach the output")
                /\ Check(e.tracked_full = e.accepted /\ e.tokens_full = e.accepted, l, "tracked seeds differ from the tokens in use (all tokens taken)")
                /\ Check(e.fed_stuck = 0, l, "feeding a tracked seed back blocked")
                /\ Check(e.fed_stuck > 0 \/ (e.fed_err = 0 /\ e.fed_ok = e.accepted), l, "feedback for a tracked seed was rejected")
                /\ Check(e.tracked_fed = e.accepted /\ e.tokens_fed = e.accepted, l, "feedback changed the tracked seeds or the tokens in use")
                /\ Check(e.fed_stuck > 0 \/ e.delivered_fed = e.fed_ok, l, "a fed-back seed did not reach the output")
                /\ Check(e.fin_stuck = 0, l, "marking a tracked seed finished blocked")
                /\ Check(e.fed_stuck + e.fin_stuck > 0 \/ (e.fin_err = 0 /\ e.fin_ok = e.accepted), l, "a tracked seed could not be marked finished (its token is not given back)")
                /\ Check(e.fed_stuck + e.fin_stuck > 0 \/ e.extra_accepted_while_full \/ e.extra_after_finish = "nil", l, "a waiting insert was not accepted although tokens were given back")
                /\ Check(e.fed_stuck + e.fin_stuck > 0 \/ e.extra_accepted_while_full \/ (e.tracked_end = 1 /\ e.tokens_end = 1), l, "tokens in use differ from the tracked seeds after all seeds were finished")
           ELSE TRUE
        /\ l' = l + 1

Spec == Init /\ [][Next]_vars
Marked == Mark(l)
=============================================================================
