------------------------------- MODULE C12_Mon -------------------------------
(* Monitor for C12: the reactor as an atomic object, written from the statement.  A recorded     *)
(* concurrent history (call / ret events of the API, deliveries on the output, quiescent          *)
(* snapshots) is accepted iff every call can be given a linearisation point between its call and  *)
(* its ret event such that the atomic reactor returns the recorded results:                       *)
(*   insert    accepted only while neither frozen nor stopped and fewer than Max seeds tracked;   *)
(*   feedback  accepted only for a tracked seed (never blocks, takes no token), else rejected     *)
(*             without any effect;                                                                *)
(*   finish    removes a tracked seed (giving its token back), a repeated finish changes nothing; *)
(*   every accepted seed appears on the output; at quiescence tracked seeds = tokens in use.      *)
(* A call that never returns ("stuck") has no explanation at all.                                 *)
EXTENDS Integers, Sequences, FiniteSets, TraceLib

VARIABLES l, max, table, frozen, stopped, pout, pend
vars == <<l, max, table, frozen, stopped, pout, pend>>

Init == l = 1 /\ max = 0 /\ table = {} /\ frozen = FALSE /\ stopped = FALSE /\ pout = <<>> /\ pend = {}

SeqToSet(s) == {s[i] : i \in 1..Len(s)}
RECURSIVE RemoveOne(_, _)
RemoveOne(s, x) == IF s = <<>> THEN <<>> ELSE IF Head(s) = x THEN Tail(s) ELSE <<Head(s)>> \o RemoveOne(Tail(s), x)

Errors == {"frozen", "shutdown", "notinit"}
\* errors the statement allows a rejected call to report in the current state
StateErrors == (IF frozen THEN {"frozen"} ELSE {}) \cup (IF stopped THEN {"shutdown", "notinit", "frozen"} ELSE {})

\* linearise pending call p now: new abstract state and the set of results it may report
Lin(p) ==
  /\ ~p.done
  /\ CASE p.op = "insert" ->
            \/ /\ ~frozen /\ ~stopped /\ Cardinality(table) < max /\ p.id \notin table
               /\ table' = table \cup {p.id} /\ pout' = Append(pout, p.id)
               /\ pend' = (pend \ {p}) \cup {[p EXCEPT !.done = TRUE, !.allowed = {"nil"}]}
               /\ UNCHANGED <<frozen, stopped>>
            \/ /\ StateErrors # {}
               /\ pend' = (pend \ {p}) \cup {[p EXCEPT !.done = TRUE, !.allowed = StateErrors]}
               /\ UNCHANGED <<table, pout, frozen, stopped>>
       [] p.op = "feedback" ->
            \/ /\ ~frozen /\ ~stopped /\ p.id \in table
               /\ pout' = Append(pout, p.id)
               /\ pend' = (pend \ {p}) \cup {[p EXCEPT !.done = TRUE, !.allowed = {"nil"}]}
               /\ UNCHANGED <<table, frozen, stopped>>
            \/ /\ (StateErrors # {} \/ p.id \notin table)
               /\ pend' = (pend \ {p}) \cup {[p EXCEPT !.done = TRUE,
                                               !.allowed = StateErrors \cup (IF p.id \notin table THEN {"notpresent"} ELSE {})]}
               /\ UNCHANGED <<table, pout, frozen, stopped>>
       [] p.op = "finish" ->
            IF stopped
            THEN /\ pend' = (pend \ {p}) \cup {[p EXCEPT !.done = TRUE, !.allowed = {"notinit", "notfound", "nil"}]}
                 /\ table' = table \ {p.id} /\ UNCHANGED <<pout, frozen, stopped>>
            ELSE IF p.id \in table
            THEN /\ table' = table \ {p.id}
                 /\ pend' = (pend \ {p}) \cup {[p EXCEPT !.done = TRUE, !.allowed = {"nil"}]}
                 /\ UNCHANGED <<pout, frozen, stopped>>
            ELSE /\ pend' = (pend \ {p}) \cup {[p EXCEPT !.done = TRUE, !.allowed = {"notfound"}]}
                 /\ UNCHANGED <<table, pout, frozen, stopped>>
       [] p.op = "freeze" ->
            /\ frozen' = TRUE
            /\ pend' = (pend \ {p}) \cup {[p EXCEPT !.done = TRUE, !.allowed = {"nil"}]}
            /\ UNCHANGED <<table, pout, stopped>>
       [] p.op = "stop" ->
            /\ frozen' = TRUE /\ stopped' = TRUE
            /\ pend' = (pend \ {p}) \cup {[p EXCEPT !.done = TRUE, !.allowed = {"nil"}]}
            /\ UNCHANGED <<table, pout>>

Silent == /\ \E p \in pend : Lin(p)
          /\ UNCHANGED <<l, max>>

Consume ==
  /\ l <= TraceLen
  /\ LET e == TraceLog[l] IN
     CASE e.ev = "start" ->
            /\ max' = e.max /\ table' = {} /\ frozen' = FALSE /\ stopped' = FALSE /\ pout' = <<>> /\ pend' = {}
       [] e.ev = "call" ->
            /\ ~\E p \in pend : p.c = e.c
            /\ pend' = pend \cup {[c |-> e.c, op |-> e.op, id |-> e.id, done |-> FALSE, allowed |-> {}]}
            /\ UNCHANGED <<max, table, frozen, stopped, pout>>
       [] e.ev = "ret" ->
            /\ \E p \in pend : /\ p.c = e.c /\ p.done /\ e.res \in p.allowed
                               /\ pend' = pend \ {p}
            /\ UNCHANGED <<max, table, frozen, stopped, pout>>
       [] e.ev = "out" ->
            /\ e.id \in SeqToSet(pout)
            /\ pout' = RemoveOne(pout, e.id)
            /\ UNCHANGED <<max, table, frozen, stopped, pend>>
       [] e.ev = "snap" ->
            /\ pend = {}
            /\ SeqToSet(e.table) = table
            /\ e.tokens = Cardinality(table)
            /\ pout = <<>>
            /\ UNCHANGED <<max, table, frozen, stopped, pout, pend>>
       [] e.ev \in {"stuck", "abort"} -> FALSE
  /\ l' = l + 1

Next == Consume \/ Silent
Spec == Init /\ [][Next]_vars
Marked == Mark(l)
=============================================================================
