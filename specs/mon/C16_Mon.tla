------------------------------- MODULE C16_Mon -------------------------------
(* Monitor for C16: the quiescent footprint after N seeds and after 4N seeds in the same process.     *)
EXTENDS Integers, Sequences, FiniteSets, TraceLib

VARIABLES l, first
vars == <<l, first>>
Init == l = 1 /\ first = <<>>

Next ==
  /\ l <= TraceLen
  /\ LET e == TraceLog[l] IN
     IF e.ev = "footprint"
     THEN /\ Check(e.table = <<>> /\ e.tokens = 0, l, "reactor still tracks seeds or holds tokens after the queue drained (" \o e.label \o ")")
          /\ Check(e.temp_files = <<>>, l, "temporary body files left on disk after the queue drained (" \o e.label \o ")")
          /\ Check(e.buckets <= e.max_buckets, l, "per-host limiter table exceeds its bound (" \o e.label \o ")")
          /\ IF first = <<>> THEN first' = e
             ELSE /\ Check(e.fds = first.fds, l, "open file descriptors differ between N and 4N seeds")
                  /\ Check(e.goroutines = first.goroutines, l, "goroutines differ between N and 4N seeds")
                  /\ UNCHANGED first
     ELSE UNCHANGED first
  /\ l' = l + 1

Spec == Init /\ [][Next]_vars
Marked == Mark(l)
=============================================================================
