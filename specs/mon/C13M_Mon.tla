------------------------------- MODULE C13M_Mon -------------------------------
(* Monitor for the per-host table (BucketManager) in real time - C13: a penalty imposed on a host is    *)
(* honoured by every later release for that host (the host is asked for more often than the table's   *)
(* clean-up period, so nothing entitles the table to forget it); C16: the table never holds more      *)
(* hosts than its bound.  Times in ms since the scenario started; the failure is stamped before the   *)
(* call that imposes the penalty and releases after they happened, so lateness only helps the code.   *)
EXTENDS Integers, Sequences, FiniteSets, TraceLib

VARIABLES l, mustWait
vars == <<l, mustWait>>
Init == l = 1 /\ mustWait = <<>>

IsPenaltyCode(c) == c \in {429, 403, 408, 425}
Key(e) == <<e.sc, e.host>>

Next ==
  /\ l <= TraceLen
  /\ LET e == TraceLog[l] IN
     CASE e.ev = "mgr.fail" /\ IsPenaltyCode(e.code) ->
            mustWait' = (Key(e) :> e.t + 5000) @@ mustWait
       [] e.ev = "mgr.release" ->
            /\ Check(Key(e) \notin DOMAIN mustWait \/ e.t >= mustWait[Key(e)], l,
                     "a request to a penalised host was released before the penalty elapsed (per-host table forgot the host)")
            /\ UNCHANGED mustWait
       [] e.ev = "mgr.count" ->
            /\ Check(e.n <= e.max, l, "per-host limiter table exceeds its bound")
            /\ UNCHANGED mustWait
       [] OTHER -> UNCHANGED mustWait
  /\ l' = l + 1
Spec == Init /\ [][Next]_vars
Marked == Mark(l)
=============================================================================
