------------------------------- MODULE C05_Mon -------------------------------
(* Monitor for C05: whenever the real preprocess() attached a request to the target node, the      *)
(* request URL - classified from its text by the statement's criteria - must be in scope.          *)
EXTENDS Integers, Sequences, TraceLib

VARIABLES l
vars == <<l>>
Init == l = 1

InScope(e) == /\ e.scheme \in {"http", "https"}
              /\ e.dotted /\ ~e.loopback
              /\ ~(e.m_exh \/ e.m_exs \/ e.m_exr)
              /\ (e.any_inc => (e.m_inch \/ e.m_incs))

Why(e) == IF e.scheme \notin {"http", "https"} THEN "scheme is not http(s)"
          ELSE IF ~e.dotted \/ e.loopback THEN "host is localhost, 127.0.0.1 or has no dot"
          ELSE IF e.m_exh THEN "host matches an excluded host"
          ELSE IF e.m_exs THEN "URL matches an exclude-string"
          ELSE IF e.m_exr THEN "URL matches an exclusion regex"
          ELSE "URL matches none of the include filters"

Next == /\ l <= TraceLen
        /\ LET e == TraceLog[l] IN
           /\ Check(e.outcome # "request" \/ InScope(e), l, "request built for an out-of-scope URL: " \o (IF e.outcome = "request" THEN Why(e) ELSE "") \o " (" \o e.pos \o ")")
           /\ Check(~e.panicked, l, "preprocess panicked (" \o e.pos \o ")")
        /\ l' = l + 1
Spec == Init /\ [][Next]_vars
Marked == Mark(l)
=============================================================================
