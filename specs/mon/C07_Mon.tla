------------------------------- MODULE C07_Mon -------------------------------
(* Monitor for C07 (and the HTML part of document-driven checks): when a seed is reported finished,  *)
(* every reference planted in its page that the statement requires has been requested from the      *)
(* origin (assets) or handed to the queue (anchors), at exactly the target URL it was built for.      *)
EXTENDS Integers, Sequences, FiniteSets, TraceLib

VARIABLES l, cfg, docs, reqs, outs
vars == <<l, cfg, docs, reqs, outs>>

Init == l = 1 /\ cfg = [disabled |-> <<>>, capture_alternate |-> FALSE, disable_assets |-> FALSE, max_hops |-> 0]
        /\ docs = <<>> /\ reqs = {} /\ outs = {}

SeqSet(s) == {s[i] : i \in 1..Len(s)}
TagOf(p) == IF p.tag = "styleattr" THEN "" ELSE p.tag
Required(p) == IF p.role = "outlink" THEN cfg.max_hops > 0 /\ TagOf(p) \notin SeqSet(cfg.disabled)
               ELSE /\ ~cfg.disable_assets /\ TagOf(p) \notin SeqSet(cfg.disabled)
                    /\ (p.rel = "alternate" => cfg.capture_alternate)
Done(p) == IF p.role = "outlink" THEN p.target \in outs ELSE p.target \in reqs

Next ==
  /\ l <= TraceLen
  /\ LET e == TraceLog[l] IN
     CASE e.ev = "c07.cfg" ->
            /\ cfg' = [disabled |-> e.disabled, capture_alternate |-> e.capture_alternate, disable_assets |-> e.disable_assets, max_hops |-> e.max_hops]
            /\ UNCHANGED <<docs, reqs, outs>>
       [] e.ev = "doc" -> docs' = (e.id :> e.planted) @@ docs /\ UNCHANGED <<cfg, reqs, outs>>
       [] e.ev = "req" -> reqs' = reqs \cup {e.url} /\ UNCHANGED <<cfg, docs, outs>>
       [] e.ev = "post.done" -> outs' = outs \cup {e.outlinks[i].u : i \in 1..Len(e.outlinks)} /\ UNCHANGED <<cfg, docs, reqs>>
       [] e.ev = "lq.finish.recv" ->
            /\ IF e.id \in DOMAIN docs
               THEN \A i \in 1..Len(docs[e.id]) :
                      LET p == docs[e.id][i] IN
                      Check(~Required(p) \/ Done(p), l,
                            (IF p.role = "outlink" THEN "anchor target not queued: " ELSE "page requisite not fetched: ")
                            \o p.tag \o "." \o p.attr \o " rel=" \o p.rel \o " form=" \o p.form \o " quote=" \o p.quote)
               ELSE TRUE
            /\ UNCHANGED <<cfg, docs, reqs, outs>>
       [] OTHER -> UNCHANGED <<cfg, docs, reqs, outs>>
  /\ l' = l + 1

Spec == Init /\ [][Next]_vars
Marked == Mark(l)
=============================================================================
