------------------------------- MODULE C17_Mon -------------------------------
(* Monitor for C17: at quiescence the totals equal the number of events the goroutines report    *)
(* having produced (URLs crawled, seeds finished, per status code), the gauges equal ups minus   *)
(* downs, and a mean fed with one constant value v (adds racing with resets) is a mean of v's:   *)
(* after one more add(v) it must read exactly v.                                                 *)
EXTENDS Integers, Sequences, TraceLib

VARIABLES l, acc
vars == <<l, acc>>
Keys == {"urls", "seeds", "c200", "c301", "c404", "c500", "c503", "up0", "up1", "up2"}
Zero == [k \in Keys |-> 0]

Init == l = 1 /\ acc = Zero

Next ==
  /\ l <= TraceLen
  /\ LET e == TraceLog[l] IN
     CASE e.ev = "burst.start" -> acc' = [acc EXCEPT !.up0 = acc.up0, !.up1 = acc.up1, !.up2 = acc.up2]
       [] e.ev = "burst.batch" -> acc' = [k \in Keys |-> acc[k] + e[k]]
       [] e.ev = "burst.read" ->
            /\ Check(e.urls = acc.urls, l, "total URLs crawled differs from the number of increments")
            /\ Check(e.seeds = acc.seeds, l, "total seeds finished differs from the number of increments")
            /\ Check(\A c \in {"c200", "c301", "c404", "c500", "c503"} : e[c] = acc[c], l, "per-status-code total differs from the number of increments")
            /\ Check(e.g0 = acc.up0 /\ e.g1 = acc.up1 /\ e.g2 = acc.up2, l, "worker gauge differs from increments minus decrements")
            /\ UNCHANGED acc
       [] e.ev = "mean.round" ->
            /\ Check(e.m1 = 0 \/ e.m1 = e.v * 1000, l, "mean of equal values differs from that value (" \o e.mean \o ")")
            /\ Check(e.m2 = e.v * 1000, l, "mean is not sum over count after racing add/reset (" \o e.mean \o ")")
            /\ UNCHANGED acc
       [] e.ev = "gauges" ->     \* from a pipeline run: while the workers are alive, and after Stop returned
            /\ Check(e.pre = e.workers /\ e.arch = e.workers /\ e.post = e.workers, l,
                     "worker gauges differ from the number of live workers (" \o e.phase \o ")")
            /\ UNCHANGED acc
       [] e.ev = "fresh.read" ->  \* every key was incremented once by each of g goroutines, all for the first time
            /\ Check(e.got = e.expected, l, "per-status-code totals lost events when several goroutines used a new code at once")
            /\ UNCHANGED acc
       [] e.ev = "gauge.free" ->  \* rounds of g decrements and g increments from 2g goroutines in free order, gauge read afterwards
            /\ Check(e.bad = 0, l, "worker gauge not back at its starting value after equal numbers of concurrent increments and decrements")
            /\ UNCHANGED acc
       [] OTHER -> UNCHANGED acc
  /\ l' = l + 1

Spec == Init /\ [][Next]_vars
Marked == Mark(l)
=============================================================================
