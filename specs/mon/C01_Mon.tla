------------------------------- MODULE C01_Mon -------------------------------
(* Monitor for C01, from the statement, over the trace of one pipeline run:                       *)
(*   queued(id)            a seed waiting in the queue                                            *)
(*   req(url)              a request received by the origin server                                *)
(*   <stage>.take / .done  stage workers (tree = projected item tree of the seed)                 *)
(*   lq.finish.recv(id)    the finish message arriving at the queue (with the seed's tree)        *)
(*   quiescent(table)      the pipeline has drained; reactor state table                          *)
(* Every queued seed is reported finished exactly once - never dropped, never twice - and only    *)
(* when every node of its tree is done (fetched, skipped or failed for good); a node counted as   *)
(* fetched was really requested; no stage touches a seed after it was reported finished.          *)
EXTENDS Integers, Sequences, FiniteSets, TraceLib

VARIABLES l, queued, kind, fins, entered, reqs, expect
vars == <<l, queued, kind, fins, entered, reqs, expect>>

Init == l = 1 /\ queued = {} /\ kind = <<>> /\ fins = <<>> /\ entered = {} /\ reqs = {} /\ expect = <<>>

\* a node still awaits fetching (Fresh, PreProcessed) or post-processing (Archived); GotRedirected / GotChildren
\* nodes have been fetched themselves and only wait for their children
Awaits(st) == st \in {"Fresh", "PreProcessed", "Archived"}
FinCount(id) == IF id \in DOMAIN fins THEN fins[id] ELSE 0
AllTerminal(tree) == \A i \in 1..Len(tree) : ~Awaits(tree[i].st)
StageEv == {"pre.take", "pre.done", "arch.take", "arch.done", "post.take", "post.done", "post.closed", "fin.feedback"}

Next ==
  /\ l <= TraceLen
  /\ LET e == TraceLog[l] IN
     CASE e.ev = "queued" ->
            /\ queued' = queued \cup {e.id} /\ UNCHANGED <<kind, fins, entered, reqs, expect>>
       [] e.ev = "lq.claim" ->     \* rows taken from the queue (outlinks queued during the run included)
            /\ queued' = queued \cup {e.ids[i] : i \in 1..Len(e.ids)} /\ UNCHANGED <<kind, fins, entered, reqs, expect>>
       [] e.ev = "site" ->
            /\ kind' = (e.id :> e.kind) @@ kind /\ UNCHANGED <<queued, fins, entered, reqs, expect>>
       [] e.ev = "expect" ->      \* a site whose outcome is fixed by construction: these URLs are the seed's whole tree
            /\ expect' = (e.id :> {e.urls[i] : i \in 1..Len(e.urls)}) @@ expect /\ UNCHANGED <<queued, kind, fins, entered, reqs>>
       [] e.ev = "req" ->
            /\ reqs' = reqs \cup {e.url} /\ UNCHANGED <<queued, kind, fins, entered, expect>>
       [] e.ev \in StageEv ->
            /\ Check(FinCount(e.id) = 0, l, "a stage worked on a seed after it was reported finished (" \o e.ev \o ")")
            /\ Check(e.ev # "arch.done" \/ \A i \in 1..Len(e.tree) : e.tree[i].st = "Archived" => e.tree[i].u \in reqs, l,
                     "a node was marked archived although its URL was never requested")
            /\ entered' = entered \cup {e.id} /\ UNCHANGED <<queued, kind, fins, reqs, expect>>
       [] e.ev = "lq.finish.recv" ->
            /\ Check(e.id \in queued, l, "finish message for a seed that was never queued")
            /\ Check(FinCount(e.id) = 0, l, "seed reported finished twice")
            \* a queue row whose text is not a URL never becomes a seed: the consumer acknowledges it at once
            /\ Check(AllTerminal(e.tree) \/ (e.id \notin entered /\ ((e.id \in DOMAIN kind /\ kind[e.id] = "unparsable") \/ (HasKey(e, "parsed") /\ ~e.parsed))), l,
                     "seed reported finished while a node of its tree still awaits fetching or post-processing")
            /\ Check(e.id \notin DOMAIN expect \/ expect[e.id] \subseteq reqs, l, "seed reported finished although a URL its pages lead to was never requested (part of its tree was dropped)")
            /\ fins' = (e.id :> FinCount(e.id) + 1) @@ fins /\ UNCHANGED <<queued, kind, entered, reqs, expect>>
       [] e.ev = "quiescent" ->
            /\ Check(\A id \in queued : FinCount(id) = 1, l, "a queued seed was never reported finished (dropped)")
            /\ Check(e.table = <<>>, l, "reactor still tracks seeds after the queue drained")
            /\ UNCHANGED <<queued, kind, fins, entered, reqs, expect>>
       [] OTHER -> UNCHANGED <<queued, kind, fins, entered, reqs, expect>>
  /\ l' = l + 1

Spec == Init /\ [][Next]_vars
Marked == Mark(l)
=============================================================================
