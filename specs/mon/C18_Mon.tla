------------------------------- MODULE C18_Mon -------------------------------
(* Monitor for C18: every recorded decision of the real checkThreshold / CheckDiskUsage equals *)
(* the statement evaluated in exact arithmetic, and within a series (same volume and setting,  *)
(* free space increasing) an accept is never followed by a refusal.                            *)
EXTENDS DiskGuardMath, TraceLib

VARIABLES l, last
vars == <<l, last>>

Init == l = 1 /\ last = [ser |-> -1, refused |-> TRUE]

Expected(e) == IF e.msr THEN RefuseGiven(Num(e.fq, e.fr), Num(e.hq, e.hr), e.hf)
               ELSE RefuseDefault(Num(e.tq, e.tr), Num(e.fq, e.fr))

Next == /\ l <= TraceLen
        /\ LET e == TraceLog[l] IN
           IF e.ev = "thr"
           THEN /\ Check(e.refused = Expected(e), l, "decision differs from the threshold rule: " \o e.cls)
                /\ Check(~(e.ser = last.ser /\ ~last.refused /\ e.refused), l, "not monotone: more free space turned accept into refusal")
                /\ last' = [ser |-> e.ser, refused |-> e.refused]
           ELSE IF e.ev = "watch"
           THEN \* running guard: paused exactly when the last tick found the volume below the threshold
                /\ Check(e.paused = e.below, l, "watcher pause state differs from the last decision")
                /\ Check(e.below = (e.exp = "below"), l, "watcher decision differs from the setting against the real volume")
                /\ UNCHANGED last
           ELSE IF e.ev = "cfg"
           THEN \* the threshold is "the operator's --min-space-required when given": what the crawler takes as the setting is
                \* what was given (milli-GiB; 0 = not given)
                /\ Check(e.effective_milli = e.given_milli, l, "the operator's --min-space-required is not the setting the crawler uses: " \o e.text)
                /\ UNCHANGED last
           ELSE UNCHANGED last
        /\ l' = l + 1

Spec == Init /\ [][Next]_vars
Marked == Mark(l)
=============================================================================
