------------------------------- MODULE C15_Mon -------------------------------
(* Monitor for C15 over one crawl against the local queue or the fake crawl HQ (written from the     *)
(* statement).  The events, in trace order:                                                          *)
(*   post.done   the outlinks the postprocessor discovered on a page (text, via, hops) + the page     *)
(*   hq.add / lq.add        a batch reaching the queue (HQ: with the fault injected, applied or not)   *)
(*   hq.get / lq.claim      rows handed out by the queue (id, value, via, hops)                        *)
(*   pre.take    a seed entering the pipeline (raw text, via, hops of the root)                         *)
(*   fin.finish  the finisher declaring a seed finished;  hq.delete / lq.delete  acknowledgements       *)
(*   lq.rows     content of the local queue;  c15.end  the crawl went quiet                             *)
EXTENDS Integers, Sequences, FiniteSets, TraceLib

VARIABLES l, found, delivered, handed, finished, deleted, lqmode, unparsable
vars == <<l, found, delivered, handed, finished, deleted, lqmode, unparsable>>
Init == l = 1 /\ found = {} /\ delivered = {} /\ handed = <<>> /\ finished = {} /\ deleted = {} /\ lqmode = FALSE /\ unparsable = {}

Range(s) == {s[i] : i \in 1..Len(s)}
Applied(e) == IF HasKey(e, "applied") THEN e.applied ELSE TRUE
Triple(u) == <<u.value, u.via, u.hops>>

Next ==
  /\ l <= TraceLen
  /\ LET e == TraceLog[l] IN
     CASE e.ev = "post.done" ->
            LET nodes == {e.tree[i].u : i \in 1..Len(e.tree)}
                root == e.tree[1]
            IN /\ \A i \in 1..Len(e.outlinks) :
                    /\ Check(e.outlinks[i].via \in nodes, l, "outlink's via is not its parent page u=" \o e.outlinks[i].u)
                    /\ Check(e.outlinks[i].hops = root.h + 1, l, "outlink's hop count is not its parent's + 1 u=" \o e.outlinks[i].u)
               /\ found' = found \cup {<<e.outlinks[i].u, e.outlinks[i].via, e.outlinks[i].hops>> : i \in 1..Len(e.outlinks)}
               /\ UNCHANGED <<delivered, handed, finished, deleted>>
       [] e.ev \in {"hq.add", "lq.add"} ->
            /\ \A i \in 1..Len(e.urls) :
                 /\ Check(~HasKey(e.urls[i], "pathok") \/ e.urls[i].pathok, l, "hop path sent to HQ is not a run of L")
                 /\ Check(Triple(e.urls[i]) \in found, l,
                          "a URL reaches the queue that differs from every outlink discovered (text, via or hops changed) value=" \o e.urls[i].value)
            \* the local queue's add event lists the batch it was given, not what the transaction kept: for the local
            \* queue a delivery is a row seen in lq.db (lq.rows) or handed out (lq.claim)
            /\ delivered' = IF e.ev = "hq.add" /\ Applied(e) THEN delivered \cup {Triple(e.urls[i]) : i \in 1..Len(e.urls)} ELSE delivered
            /\ UNCHANGED <<found, handed, finished, deleted>>
       [] e.ev \in {"hq.get", "lq.claim"} ->
            /\ handed' = [id \in {e.urls[i].id : i \in 1..Len(e.urls)} |->
                            LET u == CHOOSE u \in Range(e.urls) : u.id = id IN Triple(u)] @@ handed
            /\ delivered' = IF e.ev = "lq.claim" THEN delivered \cup {Triple(e.urls[i]) : i \in 1..Len(e.urls)} ELSE delivered
            /\ UNCHANGED <<found, finished, deleted>>
       [] e.ev = "pre.take" /\ e.id \in DOMAIN handed /\ HasKey(e, "raw") ->
            /\ Check(e.raw = handed[e.id][1], l, "seed built from a queue row has another URL text id=" \o e.id)
            /\ Check(e.via = handed[e.id][2], l, "via lost on the way back into a seed id=" \o e.id)
            /\ Check(e.tree[1].h = handed[e.id][3], l, "hop count lost on the way back into a seed id=" \o e.id)
            /\ UNCHANGED <<found, delivered, handed, finished, deleted>>
       [] e.ev = "fin.finish" -> finished' = finished \cup {e.id} /\ UNCHANGED <<found, delivered, handed, deleted>>
       [] e.ev \in {"hq.delete", "lq.delete"} ->
            /\ \A i \in 1..Len(e.ids) : Check(e.ids[i] \in finished \/ e.ids[i] \in unparsable, l, "a seed is acknowledged to the queue before it finished id=" \o e.ids[i])
            /\ deleted' = IF Applied(e) THEN deleted \cup Range(e.ids) ELSE deleted
            /\ UNCHANGED <<found, delivered, handed, finished>>
       [] e.ev = "lq.rows" ->
            /\ Check(\A i, j \in 1..Len(e.rows) : i # j => e.rows[i].value # e.rows[j].value, l, "a URL waits twice in the local queue")
            /\ delivered' = delivered \cup {Triple(e.rows[i]) : i \in 1..Len(e.rows)}
            /\ UNCHANGED <<found, handed, finished, deleted>>
       [] e.ev = "c15.end" ->
            \* (a URL that was already waiting is not queued again: for the local queue the text decides)
            /\ \A t \in found : Check(t \in delivered \/ (lqmode /\ \E d \in delivered : d[1] = t[1]), l, "a discovered outlink never reached the queue u=" \o t[1])
            /\ \A id \in finished : Check(id \in deleted, l, "a finished seed was never acknowledged to the queue id=" \o id)
            \* everything the queue handed out is finished sooner or later - also rows whose text is not a URL - and acknowledged
            /\ \A id \in DOMAIN handed : Check(id \in deleted, l, "a row the queue handed out was never acknowledged by its id=" \o id)
            /\ UNCHANGED <<found, delivered, handed, finished, deleted>>
       [] OTHER -> UNCHANGED <<found, delivered, handed, finished, deleted>>
  /\ unparsable' = IF l <= TraceLen /\ TraceLog[l].ev = "queued" /\ HasKey(TraceLog[l], "unparsable") THEN unparsable \cup {TraceLog[l].id} ELSE unparsable
  /\ lqmode' = (lqmode \/ (l <= TraceLen /\ TraceLog[l].ev = "c15.mode" /\ TraceLog[l].mode = "lq"))
  /\ l' = l + 1
Spec == Init /\ [][Next]_vars
Marked == Mark(l)
=============================================================================
