------------------------------- MODULE C03_Mon -------------------------------
(* Monitor for C03: one run = one stop moment at one point of the configuration matrix.  The stop   *)
(* request returned under the watchdog (derived from the configuration), the process is still alive  *)
(* to say so, no ".open" WARC file is left and every file parses record by record to its end.        *)
EXTENDS Integers, Sequences, TraceLib

VARIABLES l, seen
vars == <<l, seen>>
Init == l = 1 /\ seen = [ret |-> FALSE, files |-> FALSE]

Next ==
  /\ l <= TraceLen
  /\ LET e == TraceLog[l] IN
     CASE e.ev = "stop.stuck" -> Check(FALSE, l, "stop request did not return within the bound") /\ UNCHANGED seen
       [] e.ev = "stop.ret" -> seen' = [seen EXCEPT !.ret = TRUE]
       [] e.ev = "warc.files" ->
            /\ Check(e.open = <<>>, l, "a .open WARC file is left after stop")
            /\ seen' = [seen EXCEPT !.files = TRUE]
       [] e.ev = "warc.parse" ->
            /\ Check(~e.trailing /\ e.bad = 0 /\ ~HasKey(e, "err"), l, "a WARC file does not consist of complete records only")
            /\ UNCHANGED seen
       [] e.ev = "gauges" ->
            /\ Check(e.phase # "stopped" \/ (e.pre = 0 /\ e.arch = 0 /\ e.post = 0), l, "worker gauges not zero after stop")
            /\ UNCHANGED seen
       [] e.ev = "run.end" ->
            /\ Check(seen.files, l, "run ended without reporting the WARC directory") /\ UNCHANGED seen
       [] OTHER -> UNCHANGED seen
  /\ l' = l + 1
Spec == Init /\ [][Next]_vars
Marked == Mark(l)
=============================================================================
