------------------------------- MODULE C13_Mon -------------------------------
(* Monitor for C13, from the statement: per host (= per bucket b)                                *)
(*  - any window of length T sees at most capacity + T * configured-rate releases              *)
(*    (<=> a shadow (capacity, configured-rate) bucket never goes negative),                    *)
(*  - tokens stay in [0, capacity], the refill rate in [min(0.5/s, configured), configured],   *)
(*  - after 429/403/408/425 no release before a penalty of 5 s, doubling with every further     *)
(*    failure, capped at 30 s (counted over the current run of such failures),                  *)
(*  - 5xx only lower the rate, successes only raise it, never above the configured rate.       *)
(* Units: ms, micro-tokens, micro-tokens per second (rate, ideal) / per ms (idealm).            *)
EXTENDS Integers, Sequences, TraceLib

VARIABLES l, st
vars == <<l, st>>

M == 1000000
Min(a, b) == IF a < b THEN a ELSE b
Max(a, b) == IF a > b THEN a ELSE b
Pow2(n) == IF n <= 0 THEN 1 ELSE IF n >= 20 THEN 1048576 ELSE 2 ^ n
Penalty(k) == IF k >= 4 THEN 30000 ELSE 5000 * Pow2(k - 1)
IsPenaltyCode(c) == c \in {429, 403, 408, 425}

Init == l = 1 /\ st = [shadow |-> 0, shadowT |-> 0, streak |-> 0, mustWait |-> -1, rate |-> 0, tol |-> 1, pen |-> -1]

Bounds(e, l0) ==
  /\ Check(0 <= e.tokens /\ e.tokens <= e.cap * M, l0, "tokens outside [0, capacity]")
  /\ Check(e.rate <= e.ideal + 1, l0, "refill rate above the configured rate")
  /\ Check(e.rate + 1 >= Min(500000, e.ideal), l0, "refill rate below min(0.5/s, configured rate)")

Next ==
  /\ l <= TraceLen
  /\ LET e == TraceLog[l] IN
     /\ Bounds(e, l)
     /\ CASE e.op = "new" ->
               st' = [shadow |-> e.cap * M, shadowT |-> e.t, streak |-> 0, mustWait |-> -1,
                      rate |-> e.rate, tol |-> e.tol, pen |-> e.pen]
          [] e.op = "take" ->
               LET sh == Min(e.cap * M, st.shadow + (e.t - st.shadowT) * e.idealm) - M IN
               /\ Check(sh >= 0 - st.tol, l, "window bound exceeded: more than capacity + T * rate releases")
               /\ Check(e.t >= st.mustWait, l, "release before the back-off penalty elapsed")
               /\ st' = [st EXCEPT !.shadow = sh, !.shadowT = e.t, !.rate = e.rate, !.pen = e.pen]
          [] e.op = "fail" ->
               IF IsPenaltyCode(e.code)
               THEN st' = [st EXCEPT !.streak = @ + 1,
                                     !.mustWait = Max(@, e.t + Penalty(st.streak + 1)),
                                     !.rate = e.rate, !.pen = e.pen]
               ELSE /\ Check(e.rate <= st.rate + 1, l, "a failure response raised the rate")
                    /\ Check(e.code < 500 \/ e.pen = st.pen, l, "a 5xx response imposed a penalty")
                    /\ st' = [st EXCEPT !.rate = e.rate, !.pen = e.pen]
          [] e.op = "succ" ->
               /\ Check(e.rate + 1 >= st.rate, l, "a success lowered the rate")
               /\ st' = [st EXCEPT !.streak = 0, !.rate = e.rate, !.pen = e.pen]
  /\ l' = l + 1

Spec == Init /\ [][Next]_vars
Marked == Mark(l)
=============================================================================
