------------------------------- MODULE C14P_Mon -------------------------------
(* Monitor for C14 on the real pipeline (the stage workers' side of the protocol): a pause reaches     *)
(* every worker of the four stages; while it lasts no stage takes work; after the resume work flows    *)
(* again and every seed finishes; a stop requested while paused returns.                               *)
EXTENDS Integers, Sequences, FiniteSets, TraceLib

VARIABLES l, phase
vars == <<l, phase>>
Init == l = 1 /\ phase = "running"

TakeEvents == {"pre.take", "arch.take", "post.take", "fin.finish", "fin.feedback", "fin.produce"}

Next ==
  /\ l <= TraceLen
  /\ LET e == TraceLog[l] IN
     CASE e.ev = "c14.pause.ret" -> Check(e.paused, l, "Pause returned but the pipeline does not report paused") /\ phase' = "pausing"
       [] e.ev = "c14.settled" ->
            /\ Check(e.ok, l, "the pause did not reach every worker of the four stages")
            /\ phase' = "paused"
       [] e.ev \in TakeEvents /\ phase = "paused" ->
            /\ Check(FALSE, l, "a stage took work while the pipeline was paused")
            /\ UNCHANGED phase
       [] e.ev = "c14.resume.call" -> phase' = "resuming"
       [] e.ev = "c14.resume.stuck" -> Check(FALSE, l, "Resume did not return") /\ UNCHANGED phase
       [] e.ev = "c14.resume.ret" -> Check(~e.paused, l, "Resume returned but the pipeline still reports paused") /\ phase' = "running"
       [] e.ev = "quiescent" -> Check(e.all_finished, l, "after the resume not every seed finished (a stage did not wake up)") /\ UNCHANGED phase
       [] e.ev = "c14.stop.paused" -> phase' = "stopping"
       [] e.ev = "stop.stuck" -> Check(FALSE, l, "stop requested while paused did not return") /\ UNCHANGED phase
       [] OTHER -> UNCHANGED phase
  /\ l' = l + 1
Spec == Init /\ [][Next]_vars
Marked == Mark(l)
=============================================================================
