------------------------------- MODULE C11_Mon -------------------------------
(* Monitor for C11, written from the property statement only.  After every operation the tree  *)
(* is well-formed (unique ids, symmetric links, the model's own consistency check passes, and  *)
(* the projected statuses are compatible with the structure); de-duplication leaves one node   *)
(* per URL and loses no URL; the seed is declared complete iff no node still awaits fetching   *)
(* or post-processing.                                                                        *)
EXTENDS ItemTree, TraceLib

VARIABLES l
vars == <<l>>

ToTree(js) == [k \in 1..Len(js) |-> Node(js[k].d, js[k].u, js[k].st)]

Init == l = 1

Next == /\ l <= TraceLen
        /\ LET e == TraceLog[l]
               before == ToTree(e.before)
               after == ToTree(e.after)
           IN /\ Check(e.ids, l, "ids not unique after " \o e.op)
              /\ Check(e.links, l, "parent/child links not symmetric after " \o e.op)
              /\ Check(e.cc = "", l, "CheckConsistency fails after " \o e.op)
              /\ Check(WellShaped(after) /\ Consistent(after), l, "statuses incompatible with structure after " \o e.op)
              \* "dedupe-any" / "cac-any": the operation applied to an arbitrary consistent tree, reachable through the stages or
              \* not: one node per URL and well-formedness are demanded there too; "never discards a URL" and "complete iff
              \* nothing pending" are statements about trees the stages can build (every pass de-duplicates before it fetches)
              /\ Check(e.op \notin {"dedupe", "dedupe-any"} \/ OnePerUrl(after), l, "dedupe left two nodes with one URL")
              /\ Check(e.op # "dedupe" \/ NoUrlLost(before, after), l, "dedupe discarded a URL altogether")
              /\ Check(e.op # "cac" \/ CompletionExact(after, e.r), l, "completion verdict differs from pending work")
              /\ Check(e.op # "conc" \/ (e.panics = 0 /\ {after[i].u : i \in 2..Len(after)} = {e.expect[i] : i \in 1..Len(e.expect)} /\ Len(after) = Len(e.expect) + 1), l,
                       "concurrent removals / additions on one node left other children than those not removed plus those added")
        /\ l' = l + 1

Spec == Init /\ [][Next]_vars
Marked == Mark(l)
=============================================================================
