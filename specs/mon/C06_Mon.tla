------------------------------- MODULE C06_Mon -------------------------------
(* Monitor for C06 over a pipeline run against the endless-by-construction origin:                *)
(*   req events carry the label the URL was built with (chain index, nesting depth, retry target)  *)
(*   post.done events carry the seed's tree (with hops per node) and the outlinks it produced       *)
(* At most max-redirect redirects per chain; nothing fetched deeper than three levels below the    *)
(* page (domains-crawl off); at most max-retry + 1 attempts per URL; bounded passes per seed;       *)
(* outlink hop rules; assets and redirect targets carry the page's hops.                            *)
EXTENDS Integers, Sequences, FiniteSets, TraceLib

VARIABLES l, cfg, cnt, pass
vars == <<l, cfg, cnt, pass>>

Init == l = 1 /\ cfg = [max_redirect |-> 0, max_retry |-> 0, max_hops |-> 0, dc |-> FALSE] /\ cnt = <<>> /\ pass = <<>>

Get(f, k) == IF k \in DOMAIN f THEN f[k] ELSE 0
HopsOf(tree, via) == LET S == {i \in 1..Len(tree) : tree[i].u = via} IN IF S = {} THEN -1 ELSE tree[CHOOSE i \in S : TRUE].h

OutlinkOK(o, tree) ==
  LET ph == HopsOf(tree, o.via) IN
  IF cfg.dc /\ o.dcm THEN o.hops = 0
  ELSE ph >= 0 /\ ph < cfg.max_hops /\ o.hops = ph + 1

Next ==
  /\ l <= TraceLen
  /\ LET e == TraceLog[l] IN
     CASE e.ev = "c06.cfg" ->
            /\ cfg' = [max_redirect |-> e.max_redirect, max_retry |-> e.max_retry, max_hops |-> e.max_hops, dc |-> e.dc]
            /\ UNCHANGED <<cnt, pass>>
       [] e.ev = "req" ->
            /\ Check(e.lbl # "chain" \/ e.idx <= cfg.max_redirect, l, "more than max-redirect redirects followed in a chain")
            /\ Check(e.lbl # "deep" \/ cfg.dc \/ e.idx <= 3, l, "resource fetched more than three levels below the page")
            /\ Check(e.lbl # "retry" \/ Get(cnt, e.url) + 1 <= cfg.max_retry + 1, l, "URL attempted more than max-retry + 1 times")
            /\ cnt' = (e.url :> Get(cnt, e.url) + 1) @@ cnt /\ UNCHANGED <<cfg, pass>>
       [] e.ev = "pre.take" ->
            /\ Check(cfg.dc \/ Get(pass, e.id) + 1 <= 4 * (cfg.max_redirect + 1), l, "seed needed more pipeline passes than the bound")
            /\ pass' = (e.id :> Get(pass, e.id) + 1) @@ pass /\ UNCHANGED <<cfg, cnt>>
       [] e.ev = "post.done" ->
            /\ Check(\A i \in 1..Len(e.tree) : e.tree[i].h = e.tree[1].h, l, "an asset or redirect target does not carry the page's hops")
            /\ Check(\A k \in 1..Len(e.outlinks) : OutlinkOK(e.outlinks[k], e.tree), l, "outlink queued against the hop rules")
            /\ UNCHANGED <<cfg, cnt, pass>>
       [] OTHER -> UNCHANGED <<cfg, cnt, pass>>
  /\ l' = l + 1

Spec == Init /\ [][Next]_vars
Marked == Mark(l)
=============================================================================
