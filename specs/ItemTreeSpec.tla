---------------------------- MODULE ItemTreeSpec ----------------------------
(* Pipeline-shaped operation sequences on one seed's tree (C11; reused by C01's Zeno model).    *)
(* Each action is one primitive operation the stages perform (RemoveChild, SetStatus, AddChild,  *)
(* DedupeItems, CompleteAndCheck) in exactly the order preprocess() / archive() / postprocess()  *)
(* / finisher.worker() issue them; every data-dependent choice (what the URL filter says, what   *)
(* the server answers, what the seen-store says) is nondeterministic.                            *)
EXTENDS ItemTree, Json

CONSTANTS URLS,        \* set of URL names
          MaxNodes,    \* bound on tree size
          MaxKids,     \* children added per post-processed node (1..MaxKids)
          MaxPasses,   \* bound on finisher round trips
          Fix,         \* TRUE: repaired dedupe rule; FALSE: rule of the pinned commit
          Dump         \* TRUE: print the tree before every DedupeItems / CompleteAndCheck transition

VARIABLES tree, phase, od, todo, passes, hist

vars == <<tree, phase, od, todo, passes, hist>>
View == <<tree, phase, od, todo, passes>>

H(op) == hist' = Append(hist, op)

Init == /\ \E u \in URLS : /\ tree = <<Node(0, u, "Fresh")>>
                          /\ hist = <<[op |-> "new", u |-> u]>>
        /\ phase = "pre" /\ od = 0 /\ todo = {1} /\ passes = 0

DumpTree(tag) == IF Dump THEN PrintT(<<tag, ToJson(tree)>>) ELSE TRUE
Top == MaxOf(todo)
Seed == tree[1]
UNCH == TRUE

-----------------------------------------------------------------------------
(* preprocess(): per node at the operating depth, in order *)
PreKeep == /\ phase = "pre" /\ todo # {}
           /\ todo' = todo \ {Top}
           /\ UNCHANGED <<tree, phase, od, passes, hist>> /\ UNCH

\* normalisation failed / filtered out / empty path: child or redirect target is removed
PreRemove == /\ phase = "pre" /\ todo # {} /\ Top # 1
             /\ tree' = RemoveSub(tree, Top)
             /\ H([op |-> "remove", i |-> Top])
             /\ todo' = todo \ {Top}
             /\ UNCHANGED <<phase, od, passes>> /\ UNCH

\* the seed itself cannot be normalised (Failed) or is out of scope (Completed): early return
PreSeedOut(st) == /\ phase = "pre" /\ todo # {} /\ Top = 1
                  /\ tree' = SetStatus(tree, 1, st)
                  /\ H([op |-> "set", i |-> 1, st |-> st])
                  /\ phase' = "arch" /\ todo' = {}
                  /\ UNCHANGED <<od, passes>> /\ UNCH

PreDedupe == /\ phase = "pre" /\ todo = {}
             /\ DumpTree("VF_DD")
             /\ tree' = Dedupe(tree, Fix)
             /\ H([op |-> "dedupe"])
             /\ phase' = "pre2"
             /\ UNCHANGED <<od, todo, passes>>

\* nothing left at the operating depth -> seed Completed, return; else go on to the seencheck
PreAfterDedupe ==
  /\ phase = "pre2"
  /\ IF AtLevel(tree, od) = {}
     THEN /\ tree' = SetStatus(tree, 1, "Completed")
          /\ H([op |-> "set", i |-> 1, st |-> "Completed"])
          /\ phase' = "arch" /\ todo' = {}
     ELSE /\ phase' = "seen" /\ todo' = AtLevel(tree, MaxDepth(tree))
          /\ UNCHANGED <<tree, hist>>
  /\ UNCHANGED <<od, passes>> /\ UNCH

SeenSkip == /\ phase = "seen" /\ todo # {}
            /\ todo' = todo \ {Top}
            /\ UNCHANGED <<tree, phase, od, passes, hist>> /\ UNCH
SeenMark == /\ phase = "seen" /\ todo # {}
            /\ tree' = SetStatus(tree, Top, "Seen")
            /\ H([op |-> "set", i |-> Top, st |-> "Seen"])
            /\ todo' = todo \ {Top}
            /\ UNCHANGED <<phase, od, passes>> /\ UNCH

PreAfterSeen ==
  /\ phase = "seen" /\ todo = {}
  /\ LET fresh == {i \in AtLevel(tree, od) : tree[i].st = "Fresh"} IN
     IF fresh = {}
     THEN /\ tree' = SetStatus(tree, 1, "Completed")
          /\ H([op |-> "set", i |-> 1, st |-> "Completed"])
          /\ phase' = "arch" /\ todo' = {}
     ELSE /\ phase' = "req" /\ todo' = fresh
          /\ UNCHANGED <<tree, hist>>
  /\ UNCHANGED <<od, passes>> /\ UNCH

\* request built (PreProcessed) or not (Failed)
PreReq(st) == /\ phase = "req" /\ todo # {}
              /\ tree' = SetStatus(tree, Top, st)
              /\ H([op |-> "set", i |-> Top, st |-> st])
              /\ todo' = todo \ {Top}
              /\ UNCHANGED <<phase, od, passes>> /\ UNCH
PreEnd == /\ phase = "req" /\ todo = {}
          /\ phase' = "arch"
          /\ UNCHANGED <<tree, od, todo, passes, hist>> /\ UNCH

-----------------------------------------------------------------------------
(* archiver.worker / archive() *)
ArchStart ==
  /\ phase = "arch"
  /\ IF Seed.st \in {"PreProcessed", "GotRedirected", "GotChildren"}
     THEN todo' = {i \in AtLevel(tree, MaxDepth(tree)) : tree[i].st = "PreProcessed"}
     ELSE todo' = {}
  /\ phase' = "arch2"
  /\ UNCHANGED <<tree, od, passes, hist>> /\ UNCH
ArchItem(st) == /\ phase = "arch2" /\ todo # {}
                /\ tree' = SetStatus(tree, Top, st)
                /\ H([op |-> "set", i |-> Top, st |-> st])
                /\ todo' = todo \ {Top}
                /\ UNCHANGED <<phase, od, passes>> /\ UNCH
ArchEnd == /\ phase = "arch2" /\ todo = {}
           /\ phase' = "post"
           /\ UNCHANGED <<tree, od, todo, passes, hist>> /\ UNCH

-----------------------------------------------------------------------------
(* postprocessor.worker / postprocess() / postprocessItem() *)
PostStart ==
  /\ phase = "post"
  /\ IF Seed.st \in {"Archived", "GotRedirected", "GotChildren"}
     THEN todo' = {i \in AtLevel(tree, MaxDepth(tree)) : tree[i].st = "Archived"}
     ELSE todo' = {}
  /\ phase' = "post2"
  /\ UNCHANGED <<tree, od, passes, hist>> /\ UNCH

\* depth cut, redirect limit, no links, error ... : the node is simply Completed
PostComplete == /\ phase = "post2" /\ todo # {} /\ Children(tree, Top) = {}
                /\ tree' = SetStatus(tree, Top, "Completed")
                /\ H([op |-> "set", i |-> Top, st |-> "Completed"])
                /\ todo' = todo \ {Top}
                /\ UNCHANGED <<phase, od, passes>> /\ UNCH
PostRedirect(u) == /\ phase = "post2" /\ todo # {} /\ Len(tree) < MaxNodes
                   /\ Children(tree, Top) = {}
                   /\ tree' = AddChild(tree, Top, u, "GotRedirected")
                   /\ H([op |-> "add", i |-> Top, u |-> u, from |-> "GotRedirected"])
                   /\ todo' = todo \ {Top}
                   /\ UNCHANGED <<phase, od, passes>> /\ UNCH
\* one asset; the node stays in todo until PostKidsDone so that several assets can be added
PostAddKid(u) == /\ phase = "post2" /\ todo # {} /\ Len(tree) < MaxNodes
                 /\ Cardinality(Children(tree, Top)) < MaxKids
                 /\ tree' = AddChild(tree, Top, u, "GotChildren")
                 /\ H([op |-> "add", i |-> Top, u |-> u, from |-> "GotChildren"])
                 /\ UNCHANGED <<phase, od, todo, passes>> /\ UNCH
PostKidsDone == /\ phase = "post2" /\ todo # {} /\ Children(tree, Top) # {}
                /\ todo' = todo \ {Top}
                /\ UNCHANGED <<tree, phase, od, passes, hist>> /\ UNCH
PostEnd == /\ phase = "post2" /\ todo = {}
           /\ phase' = "fin"
           /\ UNCHANGED <<tree, od, todo, passes, hist>> /\ UNCH

-----------------------------------------------------------------------------
(* finisher.worker: CompleteAndCheck decides between feedback (another pass) and finish *)
Fin == /\ phase = "fin"
       /\ DumpTree("VF_CAC")
       /\ LET c == CompleteAndCheck(tree) IN
          /\ tree' = c.t
          /\ H([op |-> "cac", r |-> c.r])
          /\ IF c.r THEN /\ phase' = "done" /\ od' = od /\ todo' = {} /\ passes' = passes
             ELSE /\ passes < MaxPasses
                  /\ phase' = "pre" /\ od' = MaxDepth(c.t) /\ todo' = AtLevel(c.t, MaxDepth(c.t))
                  /\ passes' = passes + 1

\* terminal: print the operation history once (used to hand behaviours to the Go harness)
Emit == /\ phase = "done"
        /\ PrintT(<<"VF_HIST", ToJson(hist)>>)
        /\ phase' = "emitted"
        /\ UNCHANGED <<tree, od, todo, passes, hist>> /\ UNCH

Next == \/ PreKeep \/ PreRemove \/ PreSeedOut("Failed") \/ PreSeedOut("Completed")
        \/ PreDedupe \/ PreAfterDedupe \/ SeenSkip \/ SeenMark \/ PreAfterSeen
        \/ PreReq("PreProcessed") \/ PreReq("Failed") \/ PreEnd
        \/ ArchStart \/ ArchItem("Archived") \/ ArchItem("Failed") \/ ArchEnd
        \/ PostStart \/ PostComplete \/ (\E u \in URLS : PostRedirect(u) \/ PostAddKid(u))
        \/ PostKidsDone \/ PostEnd
        \/ Fin

NextEmit == Next \/ Emit

Spec == Init /\ [][Next]_vars
SpecEmit == Init /\ [][NextEmit]_vars

\* Simulation-only next-state relation: the same actions, with the early-exit choices made rare so
\* that random behaviours grow deep trees (RandomElement is evaluated afresh for every state).
Rare(n) == RandomElement(1..n) = 1
SimNext == \/ PreKeep \/ (Rare(4) /\ PreRemove)
           \/ (Rare(12) /\ (PreSeedOut("Failed") \/ PreSeedOut("Completed")))
           \/ PreDedupe \/ PreAfterDedupe \/ SeenSkip \/ (Rare(4) /\ SeenMark) \/ PreAfterSeen
           \/ PreReq("PreProcessed") \/ (Rare(5) /\ PreReq("Failed")) \/ PreEnd
           \/ ArchStart \/ ArchItem("Archived") \/ (Rare(5) /\ ArchItem("Failed")) \/ ArchEnd
           \/ PostStart \/ ((Len(tree) >= MaxNodes \/ Rare(3)) /\ PostComplete)
           \/ (\E u \in URLS : PostRedirect(u) \/ PostAddKid(u))
           \/ PostKidsDone \/ PostEnd
           \/ Fin \/ Emit
SpecSim == Init /\ [][SimNext]_vars

-----------------------------------------------------------------------------
(* Properties of C11 on every reachable tree *)
TreeOK == WellShaped(tree) /\ Consistent(tree)

\* action properties: evaluated on every transition TLC generates
DedupeStep == phase = "pre" /\ phase' = "pre2"
DedupeOK == [][DedupeStep => OnePerUrl(tree') /\ NoUrlLost(tree, tree')]_vars

FinStep == phase = "fin" /\ phase' # "fin"
CacOK == [][FinStep => CompletionExact(tree', phase' = "done")]_vars

\* what the stage workers assert on receipt (they panic otherwise): a seed entering the
\* preprocessor is not terminal and every node at its working depth is Fresh
NoPanic == phase = "pre" => /\ Seed.st \notin {"Failed", "Completed"} \/ passes = 0
                            /\ \A i \in AtLevel(tree, od) : tree[i].st = "Fresh"
=============================================================================
