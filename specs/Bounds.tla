-------------------------------- MODULE Bounds --------------------------------
(* C06: the work one seed can cause, against an adversarial site.  One path of the seed's tree is  *)
(* followed (the deepest one): the current node has a depth without redirections (dnr), a redirect  *)
(* counter (r) and is fetched with up to MaxRetry + 1 attempts; whatever it answers is the site's   *)
(* choice.  Decision rules of postprocessItem / archive:                                           *)
(*   all attempts fail            -> the node failed, the path ends                                 *)
(*   redirect status              -> followed only while r < MaxRedirect (child keeps dnr, r + 1)   *)
(*   dnr > 2                      -> completed without extraction                                   *)
(*   otherwise                    -> the site may supply children (dnr + 1, r = 0) or nothing        *)
(* Hop rules for outlinks are checked as a function table.                                         *)
EXTENDS Integers, TLC

CONSTANTS MaxRedirect, MaxRetry, MaxHops

VARIABLES dnr, r, attempts, passes, chain, state    \* chain: redirects followed in the current chain
vars == <<dnr, r, attempts, passes, chain, state>>

Init == dnr = 0 /\ r = 0 /\ attempts = 0 /\ passes = 1 /\ chain = 0 /\ state = "fetch"

\* one request; the site answers with a failure (retry), or something else
AttemptFail == /\ state = "fetch" /\ attempts <= MaxRetry
               /\ attempts' = attempts + 1
               /\ state' = IF attempts + 1 > MaxRetry THEN "done" ELSE "fetch"     \* retries exhausted: Failed
               /\ UNCHANGED <<dnr, r, passes, chain>>
AttemptOk == /\ state = "fetch" /\ attempts <= MaxRetry
             /\ attempts' = attempts + 1 /\ state' = "post"
             /\ UNCHANGED <<dnr, r, passes, chain>>
\* post-processing: the site's answer was a redirect
PostRedirect == /\ state = "post"
                /\ IF r >= MaxRedirect THEN state' = "done" /\ UNCHANGED <<r, passes, attempts, chain>>
                   ELSE /\ r' = r + 1 /\ chain' = chain + 1 /\ passes' = passes + 1 /\ attempts' = 0 /\ state' = "fetch"
                /\ UNCHANGED dnr
\* the site's answer was a document with further embedded resources
PostChildren == /\ state = "post"
                /\ IF dnr > 2 THEN state' = "done" /\ UNCHANGED <<dnr, r, passes, attempts, chain>>
                   ELSE /\ dnr' = dnr + 1 /\ r' = 0 /\ chain' = 0 /\ passes' = passes + 1 /\ attempts' = 0 /\ state' = "fetch"
PostLeaf == state = "post" /\ state' = "done" /\ UNCHANGED <<dnr, r, attempts, passes, chain>>

Next == AttemptFail \/ AttemptOk \/ PostRedirect \/ PostChildren \/ PostLeaf
Spec == Init /\ [][Next]_vars /\ WF_vars(Next)

RedirectBound == chain <= MaxRedirect
DepthBound == dnr <= 3
RetryBound == attempts <= MaxRetry + 1
PassBound == passes <= 4 * (MaxRedirect + 1)
Terminates == <>(state = "done")

\* hop rules: outlink from a page with hops ph; match = it matches --domains-crawl (dc = it is active)
Queued(ph, dc, match) == IF dc /\ match THEN TRUE ELSE ph < MaxHops
OutHops(ph, dc, match) == IF dc /\ match THEN 0 ELSE ph + 1
HopsOK == \A ph \in 0..(MaxHops + 2) : \A dc \in BOOLEAN : \A m \in BOOLEAN :
            /\ (Queued(ph, dc, m) /\ ~(dc /\ m)) => (ph < MaxHops /\ OutHops(ph, dc, m) = ph + 1)
            /\ (dc /\ m) => OutHops(ph, dc, m) = 0
=============================================================================
