------------------------------- MODULE S3Walk -------------------------------
(* C19 (bucket listings): an S3-style bucket, the two listing APIs, and the crawler's walk as the   *)
(* rules of extractor.S3 make it (s3Legacy: marker pagination; s3V2: continuation tokens and common  *)
(* prefixes with delimiter "/").                                                                    *)
(* Keys are sequences of small integers: <<1, 2>> is the key "1/2"; S3's binary order of such keys  *)
(* is the lexicographic order of the sequences, a proper prefix first.  A common prefix <<1>> is     *)
(* "1/".  Entries of a V2 page are contents and common prefixes merged in that order ("1" < "1/").   *)
EXTENDS Integers, Sequences, FiniteSets, TLC

CONSTANTS Comps, MaxDepth, MaxKeys, PageSizes,
          FixMixed     \* TRUE: a V2 page's objects are queued even when the page also has common prefixes (repaired)

Keys == UNION {[1..n -> Comps] : n \in 1..MaxDepth}

RECURSIVE Less(_, _)
Less(a, b) == IF a = <<>> THEN b # <<>>
              ELSE IF b = <<>> THEN FALSE
              ELSE IF Head(a) # Head(b) THEN Head(a) < Head(b)
              ELSE Less(Tail(a), Tail(b))
\* entries: [k |-> key or prefix components, cp |-> is a common prefix]
ELess(e, f) == Less(e.k, f.k) \/ (e.k = f.k /\ ~e.cp /\ f.cp)
HasPrefix(k, p) == Len(k) > Len(p) /\ SubSeq(k, 1, Len(p)) = p
NoEntry == [k |-> <<>>, cp |-> FALSE]           \* "no token": smaller than every entry

\* ---- the server
\* V2 with delimiter: entries under prefix p
EntriesV2(bucket, p) ==
  {[k |-> k, cp |-> FALSE] : k \in {x \in bucket : HasPrefix(x, p) /\ Len(x) = Len(p) + 1}}
  \cup {[k |-> SubSeq(k, 1, Len(p) + 1), cp |-> TRUE] : k \in {x \in bucket : HasPrefix(x, p) /\ Len(x) > Len(p) + 1}}
After(E, tok) == {e \in E : ELess(tok, e)}
FirstN(E, n) == {e \in E : Cardinality({f \in E : ELess(f, e)}) < n}
LastOf(E) == CHOOSE e \in E : \A f \in E : f = e \/ ELess(f, e)
PageV2(bucket, p, tok, n) ==
  LET rest == After(EntriesV2(bucket, p), tok)
      page == FirstN(rest, n)
  IN [entries |-> page, truncated |-> page # rest]
\* legacy: flat, keys after the marker
PageLegacy(bucket, marker, n) ==
  LET E == {[k |-> k, cp |-> FALSE] : k \in bucket}
      rest == After(E, [k |-> marker, cp |-> FALSE])
      page == FirstN(rest, n)
  IN [entries |-> page, truncated |-> page # rest]

\* ---- the crawler (what extractor.S3 returns for a listing page)
\* V2 request: [prefix, tok]; links: one listing per common prefix (the request's other parameters - including a
\* continuation token - are kept), the objects, the next page
LinksV2(req, page, zero) ==
  LET cps == {e \in page.entries : e.cp}
      objs == {e.k : e \in {x \in page.entries : ~x.cp /\ x.k \notin zero}}
  IN [listings |-> {[prefix |-> e.k, tok |-> req.tok] : e \in cps}
                   \cup (IF page.truncated /\ page.entries # {} THEN {[prefix |-> req.prefix, tok |-> LastOf(page.entries)]} ELSE {}),
      objects |-> IF cps # {} /\ ~FixMixed THEN {} ELSE objs]
\* legacy request: [marker]; a "next" link whenever the page has contents
LinksLegacy(req, page, zero) ==
  [listings |-> IF page.entries # {} THEN {[marker |-> LastOf(page.entries).k]} ELSE {},
   objects |-> {e.k : e \in {x \in page.entries : x.k \notin zero}}]

VARIABLES bucket, zero, n, v2, frontier, visited, queued
vars == <<bucket, zero, n, v2, frontier, visited, queued>>

Init == /\ bucket \in {b \in SUBSET Keys : Cardinality(b) <= MaxKeys}
        /\ zero \in SUBSET bucket
        /\ n \in PageSizes /\ v2 \in BOOLEAN
        /\ frontier = IF v2 THEN {[prefix |-> <<>>, tok |-> NoEntry]} ELSE {[marker |-> <<>>]}
        /\ visited = {} /\ queued = {}

Fetch(req) ==
  /\ req \in frontier
  /\ LET page == IF v2 THEN PageV2(bucket, req.prefix, req.tok, n) ELSE PageLegacy(bucket, req.marker, n)
         links == IF v2 THEN LinksV2(req, page, zero) ELSE LinksLegacy(req, page, zero)
     IN /\ visited' = visited \cup {req}
        /\ frontier' = (frontier \cup links.listings) \ (visited \cup {req})      \* the seen-store drops repeated URLs
        /\ queued' = queued \cup links.objects
  /\ UNCHANGED <<bucket, zero, n, v2>>

Next == \E req \in frontier : Fetch(req)
Spec == Init /\ [][Next]_vars /\ WF_vars(Next)

Sound == queued \subseteq (bucket \ zero)
Complete == frontier = {} => queued = bucket \ zero
Terminates == <>(frontier = {})
BoundedWalk == Cardinality(visited) <= 3 * (Cardinality(bucket) + 2)
=============================================================================
