------------------------------ MODULE DiskGuard ------------------------------
(* C18, part 2: the low-disk decision on an abstract grid, checked exhaustively by TLC.         *)
EXTENDS DiskGuardMath
-----------------------------------------------------------------------------
(* Grid model.  Unit = 1 GiB; msr in half GiB (msrH = 0 means "not given").                  *)
CONSTANTS MaxTotal, MaxMsrH, Trunc     \* Trunc = TRUE: uint64(threshold) truncation of the pinned commit

VARIABLES total, free, msrH
gvars == <<total, free, msrH>>

\* statement: refuse <=> free < thr, as cross-multiplied integers
StmtRefuse(t, f, m) ==
  IF m > 0 THEN 2 * f < m
  ELSE IF t <= 256 THEN 256 * f < 50 * t ELSE f < 50

\* code shape: threshold computed as a real number, optionally truncated to an integer first
CodeRefuse(t, f, m) ==
  IF m > 0 THEN (IF Trunc THEN f < m \div 2 ELSE 2 * f < m)
  ELSE IF t <= 256 THEN (IF Trunc THEN f < (50 * t) \div 256 ELSE 256 * f < 50 * t)
  ELSE f < 50

GInit == total \in 0..MaxTotal /\ free \in 0..total /\ msrH \in 0..MaxMsrH
GNext == UNCHANGED gvars
GSpec == GInit /\ [][GNext]_gvars

Exact == CodeRefuse(total, free, msrH) <=> StmtRefuse(total, free, msrH)
Monotone == free < total => (CodeRefuse(total, free + 1, msrH) => CodeRefuse(total, free, msrH))
\* both branches of the default rule agree at the 256 GiB boundary (50 GiB)
Continuous == (total = 256 /\ msrH = 0) => (CodeRefuse(total, free, 0) <=> free < 50)
=============================================================================
