----------------------------- MODULE RateLimiter -----------------------------
(* C13: the per-host token bucket (internal/pkg/archiver/ratelimiter) with penalty and recovery, *)
(* in discrete virtual time.  Time in ms, tokens in micro-tokens, rates in micro-tokens per ms  *)
(* (1/s = 1000).  One action per critical section of the Go code (Wait's loop body = Acquire,    *)
(* adjustOnFailure, onSuccess) plus the passage of time.  Shadow variables (hidden from the code) *)
(* carry the property: a conforming (capacity, configured-rate) token bucket and the end of the  *)
(* penalty the statement demands.                                                               *)
EXTENDS Integers, Sequences, TLC

CONSTANTS Cap,         \* capacity in whole tokens
          Ideal,       \* configured rate, micro-tokens per ms
          Horizon,     \* stop the clock here (ms)
          Ticks,       \* possible clock steps (ms)
          MaxFails,    \* bound on the failure counter explored
          MaxPending,  \* released requests whose outcome has not been reported yet
          FixOverflow, \* TRUE: penalty exponent capped (repaired); FALSE: 5s*2^(k-1) overflows at k >= 32
          FixFloor     \* TRUE: 5xx floor = min(0.5/s, configured); FALSE: floor = 0.5/s even if configured is lower

M == 1000000
MinRate == 500
Min(a, b) == IF a < b THEN a ELSE b
Max(a, b) == IF a > b THEN a ELSE b
Pow2(n) == IF n <= 0 THEN 1 ELSE IF n >= 20 THEN 1048576 ELSE 2 ^ n

\* what the statement asks for
StmtFloor == Min(MinRate, Ideal)
StmtPenalty(k) == IF k >= 4 THEN 30000 ELSE 5000 * Pow2(k - 1)          \* 5 s doubling, capped at 30 s

\* what the code computes
CodePenalty(k) == IF ~FixOverflow /\ k >= 32 THEN -1000000     \* float64 -> int64 overflow: a time in the past
                  ELSE IF k >= 4 THEN 30000 ELSE 5000 * Pow2(k - 1)
CodeFloor == IF FixFloor THEN Min(MinRate, Ideal) ELSE MinRate

VARIABLES now, tokens, rate, lastRefill, penUntil, fails, pending,
          shadow, shadowT, streak, mustWait
vars == <<now, tokens, rate, lastRefill, penUntil, fails, pending, shadow, shadowT, streak, mustWait>>

Init == /\ now = 0 /\ tokens = Cap * M /\ rate = Ideal /\ lastRefill = 0 /\ penUntil = -1
        /\ fails = 0 /\ pending = 0
        /\ shadow = Cap * M /\ shadowT = 0 /\ streak = 0 /\ mustWait = -1

\* refill(): returns <<tokens, lastRefill>>
Refilled ==
  IF now < penUntil THEN <<tokens, lastRefill>>
  ELSE LET base == Max(lastRefill, penUntil)
           el == now - base
       IN IF el > 0 THEN <<Min(Cap * M, tokens + el * rate), now>> ELSE <<tokens, lastRefill>>

Tick == /\ \E dt \in Ticks : now + dt <= Horizon /\ now' = now + dt
        /\ UNCHANGED <<tokens, rate, lastRefill, penUntil, fails, pending, shadow, shadowT, streak, mustWait>>

\* one iteration of Wait(): refill, then take a token if there is one (a release)
Acquire == /\ pending < MaxPending
           /\ LET r == Refilled IN
              IF r[1] >= M
              THEN /\ tokens' = r[1] - M /\ lastRefill' = r[2]
                   /\ pending' = pending + 1
                   /\ shadow' = Min(Cap * M, shadow + (now - shadowT) * Ideal) - M
                   /\ shadowT' = now
              ELSE /\ tokens' = r[1] /\ lastRefill' = r[2]
                   /\ UNCHANGED <<pending, shadow, shadowT>>
           /\ UNCHANGED <<now, rate, penUntil, fails, streak, mustWait>>

\* adjustOnFailure(429 | 403 | 408 | 425)
FailPenalty == /\ pending > 0 /\ fails < MaxFails
               /\ fails' = fails + 1
               /\ penUntil' = now + CodePenalty(fails + 1)
               /\ tokens' = 0
               /\ streak' = streak + 1
               /\ mustWait' = Max(mustWait, now + StmtPenalty(streak + 1))
               /\ pending' = pending - 1
               /\ UNCHANGED <<now, rate, lastRefill, shadow, shadowT>>

\* adjustOnFailure(5xx): rate cut with floor, tokens cleared
FailServer == /\ pending > 0 /\ fails < MaxFails
              /\ fails' = fails + 1
              /\ rate' = Max(rate \div Pow2(fails + 1), CodeFloor)
              /\ tokens' = 0
              /\ pending' = pending - 1
              /\ UNCHANGED <<now, lastRefill, penUntil, shadow, shadowT, streak, mustWait>>

\* onSuccess(): only after the penalty; 10 % of the way back, never above the configured rate
Success == /\ pending > 0
           /\ IF now > penUntil
              THEN /\ rate' = IF rate < Ideal THEN Min(Ideal, rate + (Ideal - rate) \div 10) ELSE rate
                   /\ fails' = IF fails > 0 THEN fails - 1 ELSE 0
              ELSE UNCHANGED <<rate, fails>>
           /\ streak' = 0
           /\ pending' = pending - 1
           /\ UNCHANGED <<now, tokens, lastRefill, penUntil, shadow, shadowT, mustWait>>

Next == Tick \/ Acquire \/ FailPenalty \/ FailServer \/ Success
Spec == Init /\ [][Next]_vars

-----------------------------------------------------------------------------
TokensOK == 0 <= tokens /\ tokens <= Cap * M
RateOK == StmtFloor <= rate /\ rate <= Ideal
\* any window of length T releases at most capacity + T * configured-rate  <=>  the shadow
\* (capacity, configured-rate) bucket never goes negative
WindowOK == shadow >= 0
\* a release (shadowT = now and a request pending) never happens before the demanded penalty ended
ReleaseStep == pending' = pending + 1
PenaltyOK == [][ReleaseStep => now >= mustWait]_vars
=============================================================================
