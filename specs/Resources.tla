------------------------------ MODULE Resources ------------------------------
(* C16: what a seed holds while it travels through archiver and postprocessor, on every path.       *)
(* Per item: the HTTP response body (open from client.Do until it is drained and closed), the        *)
(* spooled copy of a text-like body (a buffer or a temp file, from ProcessBody until closeBody), the  *)
(* per-item goroutine of archive(); per seed: the reactor's state entry and token.                    *)
(* Every way through the code is enumerated by the adversarial outcome of each step.                  *)
EXTENDS Integers, FiniteSets, TLC

CONSTANTS Items, MaxRetry

VARIABLES pc, retry, bodyOpen, spoolOpen, goroutine, tracked, finished
vars == <<pc, retry, bodyOpen, spoolOpen, goroutine, tracked, finished>>

Init == /\ pc = [i \in Items |-> "start"] /\ retry = [i \in Items |-> 0]
        /\ bodyOpen = [i \in Items |-> FALSE] /\ spoolOpen = [i \in Items |-> FALSE]
        /\ goroutine = [i \in Items |-> FALSE] /\ tracked = TRUE /\ finished = FALSE

Set(f, i, v) == [f EXCEPT ![i] = v]
\* archive(): one goroutine per item
Spawn(i) == pc[i] = "start" /\ pc' = Set(pc, i, "fetch") /\ goroutine' = Set(goroutine, i, TRUE)
            /\ UNCHANGED <<retry, bodyOpen, spoolOpen, tracked, finished>>
\* client.Do fails: no body; retry or give up
FetchError(i) == /\ pc[i] = "fetch"
                 /\ IF retry[i] < MaxRetry THEN retry' = Set(retry, i, retry[i] + 1) /\ UNCHANGED <<pc, goroutine>>
                    ELSE pc' = Set(pc, i, "failed") /\ goroutine' = Set(goroutine, i, FALSE) /\ UNCHANGED retry
                 /\ UNCHANGED <<bodyOpen, spoolOpen, tracked, finished>>
\* client.Do returns a response: the body is open
FetchResp(i) == pc[i] = "fetch" /\ pc' = Set(pc, i, "resp") /\ bodyOpen' = Set(bodyOpen, i, TRUE)
                /\ UNCHANGED <<retry, spoolOpen, goroutine, tracked, finished>>
\* bad status / challenge page: drained and closed on both branches
BadStatus(i) == /\ pc[i] = "resp" /\ bodyOpen' = Set(bodyOpen, i, FALSE)
                /\ IF retry[i] < MaxRetry THEN retry' = Set(retry, i, retry[i] + 1) /\ pc' = Set(pc, i, "fetch") /\ UNCHANGED goroutine
                   ELSE pc' = Set(pc, i, "failed") /\ goroutine' = Set(goroutine, i, FALSE) /\ UNCHANGED retry
                /\ UNCHANGED <<spoolOpen, tracked, finished>>
\* ProcessBody: always closes the response body (deferred); text-like bodies are spooled
BodyText(i) == pc[i] = "resp" /\ pc' = Set(pc, i, "archived") /\ bodyOpen' = Set(bodyOpen, i, FALSE)
               /\ spoolOpen' = Set(spoolOpen, i, TRUE) /\ goroutine' = Set(goroutine, i, FALSE)
               /\ UNCHANGED <<retry, tracked, finished>>
BodyOther(i) == pc[i] = "resp" /\ pc' = Set(pc, i, "archived") /\ bodyOpen' = Set(bodyOpen, i, FALSE)
                /\ goroutine' = Set(goroutine, i, FALSE) /\ UNCHANGED <<retry, spoolOpen, tracked, finished>>
BodyError(i) == pc[i] = "resp" /\ pc' = Set(pc, i, "failed") /\ bodyOpen' = Set(bodyOpen, i, FALSE)
                /\ goroutine' = Set(goroutine, i, FALSE) /\ UNCHANGED <<retry, spoolOpen, tracked, finished>>
\* postprocessItem (deferred closeBody) and closeBodies over the whole tree
Post(i) == pc[i] \in {"archived", "failed"} /\ pc' = Set(pc, i, "done") /\ spoolOpen' = Set(spoolOpen, i, FALSE)
           /\ UNCHANGED <<retry, bodyOpen, goroutine, tracked, finished>>
\* finisher: MarkAsFinished deletes the state entry and gives the token back
Finish == /\ ~finished /\ \A i \in Items : pc[i] = "done"
          /\ finished' = TRUE /\ tracked' = FALSE
          /\ UNCHANGED <<pc, retry, bodyOpen, spoolOpen, goroutine>>

Next == (\E i \in Items : Spawn(i) \/ FetchError(i) \/ FetchResp(i) \/ BadStatus(i) \/ BodyText(i) \/ BodyOther(i) \/ BodyError(i) \/ Post(i)) \/ Finish
Spec == Init /\ [][Next]_vars /\ WF_vars(Next)

NothingLeft == finished => (\A i \in Items : ~bodyOpen[i] /\ ~spoolOpen[i] /\ ~goroutine[i]) /\ ~tracked
AtMostOneBody == \A i \in Items : ~(bodyOpen[i] /\ pc[i] \in {"start", "fetch", "archived", "failed", "done"})
EventuallyIdle == <>finished
=============================================================================
