----------------------------- MODULE ReactorSpec -----------------------------
(* Exhaustive environment for Reactor: a few callers, each issuing a bounded number of calls     *)
(* chosen freely among insert / feedback / finish / freeze / stop, honouring the protocol the     *)
(* pipeline follows (a seed is fed back or finished only by whoever received it from the output; *)
(* ids are unique; Stop is issued once the callers are quiet) plus the two misuse cases the       *)
(* statement names: feedback for an unknown seed and a repeated finish.                          *)
EXTENDS Reactor

CONSTANTS Budget      \* calls per caller
VARIABLES left,       \* calls left per caller
          used,       \* ids ever inserted
          answered,   \* per id: feedback/finish calls issued for a delivery
          frzRet,     \* a Freeze or Stop call has returned
          after       \* per caller: the current call started after frzRet
vars == <<rvars, left, used, answered, frzRet, after>>
EnvView == <<rvars, left, used, answered, frzRet, after>>

Count(s, x) == Cardinality({i \in 1..Len(s) : s[i] = x})
Held == {i \in Ids : Count(delivered, i) > answered[i]}

Init == /\ RInit
        /\ left = [c \in Callers |-> Budget] /\ used = {} /\ answered = [i \in Ids |-> 0]
        /\ frzRet = FALSE /\ after = [c \in Callers |-> FALSE]

EnvCall(c, kind, id) ==
  /\ left[c] > 0 /\ left' = [left EXCEPT ![c] = @ - 1]
  /\ after' = [after EXCEPT ![c] = frzRet]
  /\ IF inputClosed        \* after Stop the package-level reactor is nil: every call errors out at once
     THEN /\ pc[c] = "idle" /\ Return(c, "notinit") /\ op' = [op EXCEPT ![c] = [kind |-> kind, id |-> id]]
          /\ UNCHANGED <<tokens, table, input, delivered, ctxDone, frozen, inputClosed, crashed, runpc>>
     ELSE Call(c, kind, id)

\* the pipeline stops its sources and the finisher before reactor.Stop: no insert / feedback starts while Stop runs
Stopping == \E d \in Callers : pc[d] \in {"stop.cancel", "stop.wait", "stop.close"}
DoInsert(c) == ~Stopping /\ \E i \in Ids \ (used \cup {"ghost"}) : EnvCall(c, "insert", i) /\ used' = used \cup {i} /\ UNCHANGED <<answered, frzRet>>
\* legitimate feedback / finish: for a seed this side currently holds
DoFeedback(c) == ~Stopping /\ \E i \in Held : EnvCall(c, "feedback", i) /\ answered' = [answered EXCEPT ![i] = @ + 1] /\ UNCHANGED <<used, frzRet>>
DoFinish(c) == \E i \in Held : EnvCall(c, "finish", i) /\ answered' = [answered EXCEPT ![i] = @ + 1] /\ UNCHANGED <<used, frzRet>>
\* misuse: the seed is not tracked (never inserted, or already finished and nobody is working on it)
Quiet(i) == (i \in used \/ i = "ghost") /\ i \notin table /\ \A d \in Callers : pc[d] = "idle" \/ op[d].id # i
DoBadFeedback(c) == ~Stopping /\ \E i \in Ids : Quiet(i) /\ i \notin Held /\ EnvCall(c, "feedback", i) /\ UNCHANGED <<used, answered, frzRet>>
DoBadFinish(c) == \E i \in Ids : Quiet(i) /\ i \notin Held /\ EnvCall(c, "finish", i) /\ UNCHANGED <<used, answered, frzRet>>
DoFreeze(c) == EnvCall(c, "freeze", "none") /\ UNCHANGED <<used, answered, frzRet>>
DoStop(c) == /\ ~ctxDone /\ \A d \in Callers : pc[d] = "idle"
             /\ EnvCall(c, "stop", "none") /\ UNCHANGED <<used, answered, frzRet>>

EnvDone(c) == /\ Done(c)
              /\ frzRet' = (frzRet \/ op[c].kind \in {"freeze", "stop"})
              /\ UNCHANGED <<left, used, answered, after>>

Env(c) == DoInsert(c) \/ DoFeedback(c) \/ DoFinish(c) \/ DoBadFeedback(c) \/ DoBadFinish(c)
          \/ DoFreeze(c) \/ DoStop(c)

Next == \/ \E c \in Callers : Env(c) \/ EnvDone(c)
        \/ Internal /\ UNCHANGED <<left, used, answered, frzRet, after>>

Spec == Init /\ [][Next]_vars
FairSpec == Spec /\ WF_vars(RunTake /\ UNCHANGED <<left, used, answered, frzRet, after>>)
                 /\ WF_vars(RunSend /\ UNCHANGED <<left, used, answered, frzRet, after>>)

-----------------------------------------------------------------------------
NoCrash == ~crashed
\* tokens in use = tracked seeds, up to calls that are between their two steps
TokenAccounting == tokens = Cardinality(table) + Cardinality(InStore) + Cardinality(InRelease)
Bound == Cardinality(table) <= Max /\ tokens <= Max
FeedbackNeverBlocks == \A c \in Callers : pc[c] = "fb.sel" => (ctxDone \/ frozen \/ inputClosed \/ Len(input) < InputCap)
FinishNeverBlocks == \A c \in Callers : pc[c] = "fin.rel" => tokens > 0
\* nothing is accepted by a call that started after Freeze/Stop returned
AfterFreeze == \A c \in Callers : (pc[c] = "ret" /\ res[c] = "nil" /\ op[c].kind \in {"insert", "feedback"}) => ~after[c]
\* rejected feedback / finish leave the reactor unchanged
Rejected(c) == pc[c] \in {"fb.swap", "fin.del"} /\ pc'[c] = "ret" /\ res'[c] \in {"notpresent", "notfound"}
NoSideEffects == [][\A c \in Callers : Rejected(c) => (table' = table /\ tokens' = tokens /\ input' = input)]_vars
\* every accepted seed reaches the output unless the reactor is stopped
Delivery == \A i \in Ids : (\E k \in 1..Len(input) : input[k] = i) ~> (Count(delivered, i) > 0 \/ ctxDone)
=============================================================================
