---------------------------- MODULE UrlAlgebraMC ----------------------------
(* Exhaustive check of the algebra on a small token domain: resolution is total, yields dot-free  *)
(* paths, is idempotent (the result re-resolved as an absolute reference is itself) and keeps the  *)
(* reference's query pairs in order and multiplicity.                                            *)
EXTENDS UrlAlgebra, FiniteSets

Segs == {"a", "b", ".", "..", ""}
SegSeqs == UNION {[1..n -> Segs] : n \in 0..3}
Queries == {<<>>, <<<<"k", "1">>>>, <<<<"k", "1">>, <<"j", "2">>>>, <<<<"k", "1">>, <<"k", "1">>>>, <<<<"j", "2">>, <<"k", "">>>>}
Bases == {Mk("http", "h.example", p, path, q) : p \in {"", "8080"}, path \in {<<"">>, <<"a", "b">>, <<"a", "">>}, q \in {<<>>, <<<<"z", "9">>>>}}
Kinds == {"abs", "schemerel", "pathabs", "pathrel", "query", "empty"}

VARIABLES b, r
vars == <<b, r>>
Init == /\ b \in Bases
        /\ r \in [kind : Kinds, scheme : {"https"}, host : {"o.example"}, port : {"", "443"},
                  segs : SegSeqs, hasq : {TRUE}, query : Queries]
Next == UNCHANGED vars
Spec == Init /\ [][Next]_vars

Res == Resolve(b, r)
DotFree == NoDots(Res.path) /\ Res.path # <<>>
Idempotent == Resolve(b, AsAbsRef(Res)) = Res
QueryKept == r.kind \in {"abs", "schemerel", "pathabs", "pathrel", "query"} => Res.query = r.query
PortNormal == ~DefaultPort(Res.scheme, Res.port)
=============================================================================
