-------------------------------- MODULE Stats --------------------------------
(* C17: the stats primitives at the granularity of their atomic operations.                     *)
(*   counter : incr / decr = one atomic add, get = one load, reset = one store                  *)
(*   rate    : incr = count.Add then total.Add; getTotal = one load; reset leaves total alone    *)
(*   mean    : add(v) = atomic add on count, then atomic add on sum; reset = store 0 to count,   *)
(*             then store 0 to sum; get = load count, load sum                                   *)
(*             (MeanLocked = TRUE: the repaired mean holds a mutex, each operation is one step)  *)
(* Each goroutine runs a fixed little program; TLC explores every interleaving.  At quiescence   *)
(* the observable values must be the result of SOME sequential order of the operations that      *)
(* respects each goroutine's program order (linearisability of the quiescent read).              *)
EXTENDS Integers, Sequences, FiniteSets, TLC

CONSTANTS Procs,       \* goroutines
          Prog,        \* Prog[p]: sequence of operations, each [op |-> "add", v |-> n] | [op |-> "reset"] | [op |-> "incr"] | [op |-> "decr"]
          MeanLocked

VARIABLES cnt, sum,    \* mean
          total, rcount,  \* rate
          gauge,       \* counter
          pc, half     \* per goroutine: index of the next operation; TRUE when its first atomic step is done
vars == <<cnt, sum, total, rcount, gauge, pc, half>>

Init == /\ cnt = 0 /\ sum = 0 /\ total = 0 /\ rcount = 0 /\ gauge = 0
        /\ pc = [p \in Procs |-> 1] /\ half = [p \in Procs |-> FALSE]

Cur(p) == Prog[p][pc[p]]
Adv(p) == pc' = [pc EXCEPT ![p] = @ + 1] /\ half' = [half EXCEPT ![p] = FALSE]
Half(p) == half' = [half EXCEPT ![p] = TRUE] /\ UNCHANGED pc

Step(p) ==
  /\ pc[p] <= Len(Prog[p])
  /\ LET o == Cur(p) IN
     CASE o.op = "add" ->
            IF MeanLocked THEN cnt' = cnt + 1 /\ sum' = sum + o.v /\ Adv(p) /\ UNCHANGED <<total, rcount, gauge>>
            ELSE IF ~half[p] THEN cnt' = cnt + 1 /\ Half(p) /\ UNCHANGED <<sum, total, rcount, gauge>>
            ELSE sum' = sum + o.v /\ Adv(p) /\ UNCHANGED <<cnt, total, rcount, gauge>>
       [] o.op = "reset" ->
            IF MeanLocked THEN cnt' = 0 /\ sum' = 0 /\ Adv(p) /\ UNCHANGED <<total, rcount, gauge>>
            ELSE IF ~half[p] THEN cnt' = 0 /\ Half(p) /\ UNCHANGED <<sum, total, rcount, gauge>>
            ELSE sum' = 0 /\ Adv(p) /\ UNCHANGED <<cnt, total, rcount, gauge>>
       [] o.op = "incr" ->     \* rate.incr: two atomic adds
            IF ~half[p] THEN rcount' = rcount + 1 /\ Half(p) /\ UNCHANGED <<cnt, sum, total, gauge>>
            ELSE total' = total + 1 /\ Adv(p) /\ UNCHANGED <<cnt, sum, rcount, gauge>>
       [] o.op = "rreset" ->   \* rate.reset: count only
            rcount' = 0 /\ Adv(p) /\ UNCHANGED <<cnt, sum, total, gauge>>
       [] o.op = "up" -> gauge' = gauge + 1 /\ Adv(p) /\ UNCHANGED <<cnt, sum, total, rcount>>
       [] o.op = "down" -> gauge' = gauge - 1 /\ Adv(p) /\ UNCHANGED <<cnt, sum, total, rcount>>

Next == \E p \in Procs : Step(p)
Spec == Init /\ [][Next]_vars

Quiescent == \A p \in Procs : pc[p] > Len(Prog[p])

\* ---- sequential outcomes of the mean: all interleavings of whole operations
RECURSIVE SeqMean(_, _, _)
SeqMean(idx, c, s) ==      \* idx: function proc -> next op index
  IF \A p \in Procs : idx[p] > Len(Prog[p]) THEN {<<c, s>>}
  ELSE UNION { LET o == Prog[p][idx[p]]
                   nidx == [idx EXCEPT ![p] = @ + 1]
               IN CASE o.op = "add" -> SeqMean(nidx, c + 1, s + o.v)
                    [] o.op = "reset" -> SeqMean(nidx, 0, 0)
                    [] OTHER -> SeqMean(nidx, c, s)
             : p \in {q \in Procs : idx[q] <= Len(Prog[q])} }
MeanOutcomes == SeqMean([p \in Procs |-> 1], 0, 0)

NumOps(kind) == Cardinality({<<p, i>> \in Procs \X (1..8) : i <= Len(Prog[p]) /\ Prog[p][i].op = kind})

MeanExact == Quiescent => <<cnt, sum>> \in MeanOutcomes
TotalExact == Quiescent => total = NumOps("incr")
GaugeExact == Quiescent => gauge = NumOps("up") - NumOps("down")
=============================================================================
