-------------------------------- MODULE Zeno --------------------------------
(* The staged pipeline as a whole (C01, C06, C16 control flow): source queue -> reactor (tokens,   *)
(* state table, input buffer, run goroutine) -> preprocessor -> archiver -> postprocessor ->       *)
(* finisher -> (feedback to the reactor | finish message to the source), with W workers per stage  *)
(* and bounded stage channels.  A seed's tree is abstracted to the number of further passes it     *)
(* needs (decided anew - by the adversarial site - at every postprocessing, bounded by MaxPasses); *)
(* tree-level facts are the subject of ItemTreeSpec.  Outlinks are fresh seeds handed to the       *)
(* finisher by the postprocessor and forwarded to the source's produce channel.                    *)
EXTENDS Integers, Sequences, FiniteSets, TLC

CONSTANTS Seeds,       \* seed ids waiting in the queue
          W,           \* workers per stage (also channel capacity and token count, as in the code)
          MaxPasses    \* passes a seed may need at most (redirect chain + asset levels)

Stages == <<"pre", "arch", "post", "fin">>
Workers == 1..W

VARIABLES queue,       \* seeds not yet claimed (set)
          tokens, table, input,     \* reactor
          runHold,     \* seed held by the reactor's run goroutine ("none")
          chan,        \* chan[st]: channel INTO stage st (sequence of seeds), capacity W
          hand,        \* hand[st][w]: seed a worker is processing ("none")
          passes,      \* passes[s]: passes done
          complete,    \* complete[s]: the tree has no pending node after the last postprocessing
          finMsgs,     \* finish messages delivered to the source, in order
          outlinks     \* count of outlink items the postprocessor still has to hand to the finisher (bounded)
vars == <<queue, tokens, table, input, runHold, chan, hand, passes, complete, finMsgs, outlinks>>

Init == /\ queue = Seeds /\ tokens = 0 /\ table = {} /\ input = <<>> /\ runHold = "none"
        /\ chan = [st \in {"pre", "arch", "post", "fin"} |-> <<>>]
        /\ hand = [st \in {"pre", "arch", "post", "fin"} |-> [w \in Workers |-> "none"]]
        /\ passes = [s \in Seeds |-> 0] /\ complete = [s \in Seeds |-> FALSE]
        /\ finMsgs = <<>> /\ outlinks = 0

NextStage(st) == CASE st = "pre" -> "arch" [] st = "arch" -> "post" [] st = "post" -> "fin"

\* source consumer: claim a seed and insert it (token, table, input)
Insert(s) == /\ s \in queue /\ tokens < W /\ Len(input) < W
             /\ queue' = queue \ {s} /\ tokens' = tokens + 1 /\ table' = table \cup {s}
             /\ input' = Append(input, s)
             /\ UNCHANGED <<runHold, chan, hand, passes, complete, finMsgs, outlinks>>
RunTake == /\ runHold = "none" /\ input # <<>>
           /\ runHold' = Head(input) /\ input' = Tail(input)
           /\ UNCHANGED <<queue, tokens, table, chan, hand, passes, complete, finMsgs, outlinks>>
RunSend == /\ runHold # "none" /\ Len(chan["pre"]) < W
           /\ chan' = [chan EXCEPT !["pre"] = Append(@, runHold)] /\ runHold' = "none"
           /\ UNCHANGED <<queue, tokens, table, input, hand, passes, complete, finMsgs, outlinks>>

Take(st, w) == /\ hand[st][w] = "none" /\ chan[st] # <<>>
               /\ hand' = [hand EXCEPT ![st][w] = Head(chan[st])]
               /\ chan' = [chan EXCEPT ![st] = Tail(@)]
               /\ UNCHANGED <<queue, tokens, table, input, runHold, passes, complete, finMsgs, outlinks>>

\* preprocessor / archiver: work on the owned seed is invisible to everybody else; forward it
Forward(st, w) == /\ st \in {"pre", "arch"} /\ hand[st][w] # "none"
                  /\ Len(chan[NextStage(st)]) < W
                  /\ chan' = [chan EXCEPT ![NextStage(st)] = Append(@, hand[st][w])]
                  /\ hand' = [hand EXCEPT ![st][w] = "none"]
                  /\ UNCHANGED <<queue, tokens, table, input, runHold, passes, complete, finMsgs, outlinks>>

\* postprocessor: the site decides whether the tree is now complete (always after MaxPasses passes)
PostForward(w, done) ==
  /\ hand["post"][w] # "none" /\ Len(chan["fin"]) < W
  /\ LET s == hand["post"][w] IN
     /\ (passes[s] + 1 >= MaxPasses => done)
     /\ passes' = [passes EXCEPT ![s] = @ + 1]
     /\ complete' = [complete EXCEPT ![s] = done]
     /\ chan' = [chan EXCEPT !["fin"] = Append(@, s)]
  /\ hand' = [hand EXCEPT !["post"][w] = "none"]
  /\ UNCHANGED <<queue, tokens, table, input, runHold, finMsgs, outlinks>>

\* finisher: incomplete -> ReceiveFeedback (Swap, then a send that never blocks because every
\* tracked seed has a slot in the input buffer); complete -> MarkAsFinished, then the finish message
FinFeedback(w) == /\ hand["fin"][w] # "none" /\ ~complete[hand["fin"][w]]
                  /\ hand["fin"][w] \in table /\ Len(input) < W
                  /\ input' = Append(input, hand["fin"][w])
                  /\ hand' = [hand EXCEPT !["fin"][w] = "none"]
                  /\ UNCHANGED <<queue, tokens, table, runHold, chan, passes, complete, finMsgs, outlinks>>
FinFinish(w) == /\ hand["fin"][w] # "none" /\ complete[hand["fin"][w]]
                /\ hand["fin"][w] \in table
                /\ table' = table \ {hand["fin"][w]} /\ tokens' = tokens - 1
                /\ finMsgs' = Append(finMsgs, hand["fin"][w])
                /\ hand' = [hand EXCEPT !["fin"][w] = "none"]
                /\ UNCHANGED <<queue, input, runHold, chan, passes, complete, outlinks>>

Next == \/ \E s \in Seeds : Insert(s)
        \/ RunTake \/ RunSend
        \/ \E st \in {"pre", "arch", "post", "fin"}, w \in Workers : Take(st, w)
        \/ \E st \in {"pre", "arch"}, w \in Workers : Forward(st, w)
        \/ \E w \in Workers, d \in BOOLEAN : PostForward(w, d)
        \/ \E w \in Workers : FinFeedback(w) \/ FinFinish(w)

Spec == Init /\ [][Next]_vars
StageFair == \A st \in {"pre", "arch", "post", "fin"} : \A w \in Workers : WF_vars(Take(st, w))
ForwardFair == \A st \in {"pre", "arch"} : \A w \in Workers : WF_vars(Forward(st, w))
PostFair == \A w \in Workers : WF_vars(\E d \in BOOLEAN : PostForward(w, d))
FinFair == \A w \in Workers : (WF_vars(FinFeedback(w)) /\ WF_vars(FinFinish(w)))
SourceFair == \A s \in Seeds : WF_vars(Insert(s))
FairSpec == /\ Spec
            /\ StageFair /\ ForwardFair /\ PostFair /\ FinFair /\ SourceFair
            /\ WF_vars(RunTake) /\ WF_vars(RunSend)

-----------------------------------------------------------------------------
Count(sq, x) == Cardinality({i \in 1..Len(sq) : sq[i] = x})
Places(s) == (IF s \in queue THEN 1 ELSE 0) + Count(input, s) + (IF runHold = s THEN 1 ELSE 0)
             + Count(chan["pre"], s) + Count(chan["arch"], s) + Count(chan["post"], s) + Count(chan["fin"], s)
             + Cardinality({<<st, w>> \in {"pre", "arch", "post", "fin"} \X Workers : hand[st][w] = s})
             + Count(finMsgs, s)

\* a seed is at exactly one place: never duplicated, never lost
SingleOwner == \A s \in Seeds : Places(s) = 1
ExactlyOnce == \A s \in Seeds : Count(finMsgs, s) <= 1
FinishOnlyWhenDone == \A s \in Seeds : Count(finMsgs, s) = 1 => complete[s]
TableEqTokens == tokens = Cardinality(table) /\ tokens <= W
\* feedback never blocks: a tracked seed always finds room in the input buffer
FeedbackRoom == \A w \in Workers : (hand["fin"][w] # "none" /\ ~complete[hand["fin"][w]]) => Len(input) < W
BoundedPasses == \A s \in Seeds : passes[s] <= MaxPasses
\* never dropped: every seed is eventually reported finished
AllFinish == \A s \in Seeds : <>(Count(finMsgs, s) = 1)
Idle == (\A s \in Seeds : Count(finMsgs, s) = 1) => (tokens = 0 /\ table = {} /\ input = <<>>)
=============================================================================
