------------------------------ MODULE Mutation ------------------------------
(* C10: structure-aware small-scope generation of hostile documents.  A document is a sequence of   *)
(* chunks of a valid sample (chunk i of the sample is the number i); the mutation operators work on   *)
(* whole chunks: drop one, duplicate one, swap two, truncate the document after a chunk, splice one  *)
(* of the hostile tokens (negative numbers) in front of a chunk.  TLC enumerates EVERY document        *)
(* reachable within MaxMut mutations; each distinct document is printed and becomes one test input    *)
(* per sample type for the real extractors / post-processing dispatch / normaliser.                  *)
EXTENDS Integers, Sequences, FiniteSets, TLC, Json

CONSTANTS N,          \* chunks in a sample
          Hostile,    \* number of hostile tokens (-1 .. -Hostile)
          MaxMut

VARIABLES doc, muts
vars == <<doc, muts>>

Init == doc = [i \in 1..N |-> i] /\ muts = 0

Remove(s, i) == SubSeq(s, 1, i - 1) \o SubSeq(s, i + 1, Len(s))
Insert(s, i, x) == SubSeq(s, 1, i - 1) \o <<x>> \o SubSeq(s, i, Len(s))

Drop(i) == doc' = Remove(doc, i)
Dup(i) == doc' = Insert(doc, i, doc[i])
Swap(i, j) == doc' = [doc EXCEPT ![i] = doc[j], ![j] = doc[i]]
Trunc(i) == doc' = SubSeq(doc, 1, i)
Splice(i, t) == doc' = Insert(doc, i, 0 - t)

Mutate == /\ muts < MaxMut /\ muts' = muts + 1
          /\ \/ \E i \in 1..Len(doc) : Drop(i) \/ Dup(i) \/ Trunc(i - 1)
             \/ \E i, j \in 1..Len(doc) : i < j /\ Swap(i, j)
             \/ \E i \in 1..(Len(doc) + 1), t \in 1..Hostile : Splice(i, t)
Next == Mutate
Spec == Init /\ [][Next]_vars

\* every reachable document is handed to the harness (printed once per distinct document thanks to the VIEW)
Emit == PrintT(<<"VF_DOC", ToJson(doc)>>)
View == doc
Bounded == Len(doc) <= N + MaxMut
=============================================================================
