-------------------------------- MODULE Stop --------------------------------
(* C03: graceful stop.  stopPipeline runs its steps in order (watchers, reactor.Freeze, the four    *)
(* stages' cancel-and-wait, source stop, reactor stop); each stage Stop waits for all its workers.  *)
(* Workers are modelled at their blocking points:                                                   *)
(*   idle    select{ctx, pause signal, input}                                                       *)
(*   acked   blocked sending on ResumeCh after a pause signal [WorkerCtx: also watches ctx]          *)
(*   busy    processing a seed (always ends: HTTP timeouts, bounded retries)                         *)
(*   send    select{ctx, output <- seed}; the finisher's sends to the source are unguarded           *)
(*   feed    (postprocessor only) the seed went on, an outlink is still to be fed into the same      *)
(*           channel: select{ctx, output <- outlink} [FeedGuard; FALSE: a bare send, the negative    *)
(*           configuration - found with a seeded change, sixth round]                                *)
(* A stop request may arrive in ANY reachable state: idle, mid-work, with full channels, paused by   *)
(* the disk watchdog / the operator.  ClientNil models --proxy (archiver.Stop touches the direct     *)
(* client) with NilGuard the repair; SeenOff / SeenGuard the --disable-seencheck crash.              *)
EXTENDS Integers, Sequences, FiniteSets, TLC

CONSTANTS W, Cap, NSeeds, WorkerCtx, ClientNil, NilGuard, SeenOff, SeenGuard, FeedGuard

StageNames == <<"pre", "arch", "post", "fin">>
Stages == {"pre", "arch", "post", "fin"}
Workers == 1..W
Steps == <<"watchers", "freeze", "pre", "arch", "post", "fin", "source", "reactor", "returned">>

VARIABLES wst,        \* wst[st][w] \in {"idle", "acked", "busy", "send", "feed", "exited"}
          inq,        \* inq[st]: seeds waiting in the stage's input channel (count, capacity Cap)
          cancelled,  \* cancelled[st]
          paused, sig, \* pause manager: paused flag, sig[st][w] pending pause signal
          sourceUp,   \* the source's receivers are running (they are stopped after the finisher)
          stopping, step, crashed, work   \* work: seeds not yet inserted
vars == <<wst, inq, cancelled, paused, sig, sourceUp, stopping, step, crashed, work>>

Init == /\ wst = [st \in Stages |-> [w \in Workers |-> "idle"]]
        /\ inq = [st \in Stages |-> 0] /\ cancelled = [st \in Stages |-> FALSE]
        /\ paused = FALSE /\ sig = [st \in Stages |-> [w \in Workers |-> FALSE]]
        /\ sourceUp = TRUE /\ stopping = FALSE /\ step = 1 /\ crashed = FALSE /\ work = NSeeds

NextOf(st) == CASE st = "pre" -> "arch" [] st = "arch" -> "post" [] st = "post" -> "fin" [] st = "fin" -> "fin"

\* ---- environment before / during stop
Feed == /\ ~stopping \/ step <= 2          \* the source inserts until the reactor is frozen
        /\ work > 0 /\ inq["pre"] < Cap /\ work' = work - 1 /\ inq' = [inq EXCEPT !["pre"] = @ + 1]
        /\ UNCHANGED <<wst, cancelled, paused, sig, sourceUp, stopping, step, crashed>>
\* a controller pauses (disk watchdog, operator): signal to every live worker
Pause == /\ ~paused /\ ~stopping /\ paused' = TRUE
         /\ sig' = [st \in Stages |-> [w \in Workers |-> wst[st][w] # "exited"]]
         /\ UNCHANGED <<wst, inq, cancelled, sourceUp, stopping, step, crashed, work>>
\* a controller resumes - only while the pipeline is not stopping (the disk watchdog returns at once on stop)
Resume == /\ paused /\ ~stopping
          /\ \A st \in Stages : \A w \in Workers : wst[st][w] \in {"acked", "exited"}     \* Resume waits for every acknowledgement
          /\ paused' = FALSE
          /\ wst' = [st \in Stages |-> [w \in Workers |-> IF wst[st][w] = "acked" THEN "idle" ELSE wst[st][w]]]
          /\ UNCHANGED <<inq, cancelled, sig, sourceUp, stopping, step, crashed, work>>

\* ---- workers
Select(st, w) ==
  /\ wst[st][w] = "idle"
  /\ \/ cancelled[st] /\ wst' = [wst EXCEPT ![st][w] = "exited"] /\ UNCHANGED <<inq, sig, crashed>>
     \/ sig[st][w] /\ sig' = [sig EXCEPT ![st][w] = FALSE] /\ wst' = [wst EXCEPT ![st][w] = "acked"] /\ UNCHANGED <<inq, crashed>>
     \/ /\ inq[st] > 0 /\ inq' = [inq EXCEPT ![st] = @ - 1]
        /\ IF st = "pre" /\ SeenOff /\ ~SeenGuard
           THEN crashed' = TRUE /\ UNCHANGED wst          \* nil seen-store dereferenced on the first seed
           ELSE wst' = [wst EXCEPT ![st][w] = "busy"] /\ UNCHANGED crashed
        /\ UNCHANGED sig
  /\ UNCHANGED <<cancelled, paused, sourceUp, stopping, step, work>>
AckedLeave(st, w) == /\ WorkerCtx /\ wst[st][w] = "acked" /\ cancelled[st]
                     /\ wst' = [wst EXCEPT ![st][w] = "exited"]
                     /\ UNCHANGED <<inq, cancelled, paused, sig, sourceUp, stopping, step, crashed, work>>
Work(st, w) == /\ wst[st][w] = "busy" /\ wst' = [wst EXCEPT ![st][w] = "send"]
               /\ UNCHANGED <<inq, cancelled, paused, sig, sourceUp, stopping, step, crashed, work>>
Send(st, w) ==
  /\ wst[st][w] = "send"
  /\ IF st = "fin"
     THEN /\ sourceUp                                   \* unguarded send to the source's channel
          /\ wst' = [wst EXCEPT ![st][w] = "idle"] /\ UNCHANGED inq
     ELSE \/ cancelled[st] /\ wst' = [wst EXCEPT ![st][w] = "exited"] /\ UNCHANGED inq
          \/ /\ inq[NextOf(st)] < Cap /\ inq' = [inq EXCEPT ![NextOf(st)] = @ + 1]
             /\ \/ wst' = [wst EXCEPT ![st][w] = "idle"]
                \/ st = "post" /\ wst' = [wst EXCEPT ![st][w] = "feed"]      \* the page had an outlink
  /\ UNCHANGED <<cancelled, paused, sig, sourceUp, stopping, step, crashed, work>>

\* the postprocessor feeds an extracted outlink to the finisher through the same bounded channel
FeedOut(w) ==
  /\ wst["post"][w] = "feed"
  /\ \/ FeedGuard /\ cancelled["post"] /\ wst' = [wst EXCEPT !["post"][w] = "exited"] /\ UNCHANGED inq
     \/ inq["fin"] < Cap /\ inq' = [inq EXCEPT !["fin"] = @ + 1] /\ wst' = [wst EXCEPT !["post"][w] = "idle"]
  /\ UNCHANGED <<cancelled, paused, sig, sourceUp, stopping, step, crashed, work>>

\* ---- stopPipeline
StopRequest == ~stopping /\ ~crashed /\ stopping' = TRUE
               /\ UNCHANGED <<wst, inq, cancelled, paused, sig, sourceUp, step, crashed, work>>
AllExited(st) == \A w \in Workers : wst[st][w] = "exited"
StopStep ==
  /\ stopping /\ ~crashed /\ Steps[step] # "returned"
  /\ LET s == Steps[step] IN
     CASE s \in {"watchers", "freeze"} -> /\ step' = step + 1 /\ UNCHANGED <<cancelled, sourceUp, crashed>>
       [] s \in Stages ->
            IF ~cancelled[s] THEN cancelled' = [cancelled EXCEPT ![s] = TRUE] /\ UNCHANGED <<step, sourceUp, crashed>>
            ELSE /\ AllExited(s)
                 /\ IF s = "arch" /\ ClientNil /\ ~NilGuard THEN crashed' = TRUE /\ UNCHANGED step
                    ELSE step' = step + 1 /\ UNCHANGED crashed
                 /\ UNCHANGED <<cancelled, sourceUp>>
       [] s = "source" -> sourceUp' = FALSE /\ step' = step + 1 /\ UNCHANGED <<cancelled, crashed>>
       [] s = "reactor" -> step' = step + 1 /\ UNCHANGED <<cancelled, sourceUp, crashed>>
  /\ UNCHANGED <<wst, inq, paused, sig, stopping, work>>

Next == Feed \/ Pause \/ Resume \/ StopRequest \/ StopStep
        \/ (\E st \in Stages, w \in Workers : Select(st, w) \/ AckedLeave(st, w) \/ Work(st, w) \/ Send(st, w))
        \/ (\E fw \in Workers : FeedOut(fw))
Spec == Init /\ [][Next]_vars
FairSpec == /\ Spec /\ WF_vars(StopStep)
            /\ \A st \in Stages : \A w \in Workers : WF_vars(Select(st, w) \/ AckedLeave(st, w) \/ Work(st, w) \/ Send(st, w))
            /\ \A fw \in Workers : WF_vars(FeedOut(fw))

NoCrash == ~crashed
StopReturns == stopping ~> (Steps[step] = "returned")
\* when stop has returned every worker is gone (the writers can then be closed and the files renamed)
WorkersGone == Steps[step] = "returned" => \A st \in Stages : AllExited(st)
=============================================================================
