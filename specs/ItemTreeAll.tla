----------------------------- MODULE ItemTreeAll -----------------------------
(* C11, exhaustive small scope over ALL trees: every pre-order list of up to N nodes with every       *)
(* assignment of URLs and statuses that the model's own consistency check accepts - whether or not     *)
(* the stages can build it.  TLC enumerates them (one state per list) and prints, for each consistent   *)
(* tree, a DedupeItems test (when two non-seed nodes share a URL) and a CompleteAndCheck test; the      *)
(* harness replays each on models.Item and TLC judges the outcome (C11_Mon) and compares it with the    *)
(* model's operators (TraceC11).                                                                       *)
EXTENDS ItemTree, TLC, Json

CONSTANTS URLS, N
VARIABLE tree

Init == tree \in {<<Node(0, u, st)>> : u \in URLS, st \in Statuses}
Next == /\ Len(tree) < N
        /\ \E d \in 1..(tree[Len(tree)].d + 1), u \in URLS, st \in Statuses : tree' = Append(tree, Node(d, u, st))
Spec == Init /\ [][Next]_tree

HasDup(t) == \E i, j \in 2..Len(t) : i < j /\ t[i].u = t[j].u
Emit == IF Consistent(tree)
        THEN /\ (IF HasDup(tree) THEN PrintT(<<"VF_DD", ToJson(tree)>>) ELSE TRUE)
             /\ PrintT(<<"VF_CAC", ToJson(tree)>>)
        ELSE TRUE
=============================================================================
