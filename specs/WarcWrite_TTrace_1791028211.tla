---- MODULE WarcWrite_TTrace_1791028211 ----
EXTENDS Sequences, TLCExt, Toolbox, Naturals, TLC, WarcWrite

_expression ==
    LET WarcWrite_TEExpression == INSTANCE WarcWrite_TEExpression
    IN WarcWrite_TEExpression!expression
----

_trace ==
    LET WarcWrite_TETrace == INSTANCE WarcWrite_TETrace
    IN WarcWrite_TETrace!trace
----

_inv ==
    ~(
        TLCGet("level") = Len(_TETrace)
        /\
        disk = ({})
        /\
        apc = ([a |-> "archived", b |-> "archived"])
        /\
        wq = (<<>>)
        /\
        finished = (TRUE)
        /\
        whand = ([w1 |-> "none", w2 |-> "none"])
        /\
        lastStart = ("b")
        /\
        fb = ([a |-> FALSE, b |-> TRUE])
        /\
        ipc = ([a |-> "captured", b |-> "dropped"])
        /\
        policy = ([a |-> "accept", b |-> "reject"])
    )
----

_init ==
    /\ fb = _TETrace[1].fb
    /\ whand = _TETrace[1].whand
    /\ lastStart = _TETrace[1].lastStart
    /\ policy = _TETrace[1].policy
    /\ apc = _TETrace[1].apc
    /\ wq = _TETrace[1].wq
    /\ disk = _TETrace[1].disk
    /\ finished = _TETrace[1].finished
    /\ ipc = _TETrace[1].ipc
----

_next ==
    /\ \E i,j \in DOMAIN _TETrace:
        /\ \/ /\ j = i + 1
              /\ i = TLCGet("level")
        /\ fb  = _TETrace[i].fb
        /\ fb' = _TETrace[j].fb
        /\ whand  = _TETrace[i].whand
        /\ whand' = _TETrace[j].whand
        /\ lastStart  = _TETrace[i].lastStart
        /\ lastStart' = _TETrace[j].lastStart
        /\ policy  = _TETrace[i].policy
        /\ policy' = _TETrace[j].policy
        /\ apc  = _TETrace[i].apc
        /\ apc' = _TETrace[j].apc
        /\ wq  = _TETrace[i].wq
        /\ wq' = _TETrace[j].wq
        /\ disk  = _TETrace[i].disk
        /\ disk' = _TETrace[j].disk
        /\ finished  = _TETrace[i].finished
        /\ finished' = _TETrace[j].finished
        /\ ipc  = _TETrace[i].ipc
        /\ ipc' = _TETrace[j].ipc

\* Uncomment the ASSUME below to write the states of the error trace
\* to the given file in Json format. Note that you can pass any tuple
\* to `JsonSerialize`. For example, a sub-sequence of _TETrace.
    \* ASSUME
    \*     LET J == INSTANCE Json
    \*         IN J!JsonSerialize("WarcWrite_TTrace_1791028211.json", _TETrace)

=============================================================================

 Note that you can extract this module `WarcWrite_TEExpression`
  to a dedicated file to reuse `expression` (the module in the 
  dedicated `WarcWrite_TEExpression.tla` file takes precedence 
  over the module `WarcWrite_TEExpression` below).

---- MODULE WarcWrite_TEExpression ----
EXTENDS Sequences, TLCExt, Toolbox, Naturals, TLC, WarcWrite

expression == 
    [
        \* To hide variables of the `WarcWrite` spec from the error trace,
        \* remove the variables below.  The trace will be written in the order
        \* of the fields of this record.
        fb |-> fb
        ,whand |-> whand
        ,lastStart |-> lastStart
        ,policy |-> policy
        ,apc |-> apc
        ,wq |-> wq
        ,disk |-> disk
        ,finished |-> finished
        ,ipc |-> ipc
        
        \* Put additional constant-, state-, and action-level expressions here:
        \* ,_stateNumber |-> _TEPosition
        \* ,_fbUnchanged |-> fb = fb'
        
        \* Format the `fb` variable as Json value.
        \* ,_fbJson |->
        \*     LET J == INSTANCE Json
        \*     IN J!ToJson(fb)
        
        \* Lastly, you may build expressions over arbitrary sets of states by
        \* leveraging the _TETrace operator.  For example, this is how to
        \* count the number of times a spec variable changed up to the current
        \* state in the trace.
        \* ,_fbModCount |->
        \*     LET F[s \in DOMAIN _TETrace] ==
        \*         IF s = 1 THEN 0
        \*         ELSE IF _TETrace[s].fb # _TETrace[s-1].fb
        \*             THEN 1 + F[s-1] ELSE F[s-1]
        \*     IN F[_TEPosition - 1]
    ]

=============================================================================



Parsing and semantic processing can take forever if the trace below is long.
 In this case, it is advised to uncomment the module below to deserialize the
 trace from a generated binary file.

\*
\*---- MODULE WarcWrite_TETrace ----
\*EXTENDS IOUtils, TLC, WarcWrite
\*
\*trace == IODeserialize("WarcWrite_TTrace_1791028211.bin", TRUE)
\*
\*=============================================================================
\*

---- MODULE WarcWrite_TETrace ----
EXTENDS TLC, WarcWrite

trace == 
    <<
    ([disk |-> {},apc |-> [a |-> "doing", b |-> "doing"],wq |-> <<>>,finished |-> FALSE,whand |-> [w1 |-> "none", w2 |-> "none"],lastStart |-> "none",fb |-> [a |-> FALSE, b |-> FALSE],ipc |-> [a |-> "idle", b |-> "idle"],policy |-> [a |-> "accept", b |-> "reject"]]),
    ([disk |-> {},apc |-> [a |-> "doing", b |-> "doing"],wq |-> <<>>,finished |-> FALSE,whand |-> [w1 |-> "none", w2 |-> "none"],lastStart |-> "a",fb |-> [a |-> FALSE, b |-> FALSE],ipc |-> [a |-> "fetch", b |-> "idle"],policy |-> [a |-> "accept", b |-> "reject"]]),
    ([disk |-> {},apc |-> [a |-> "archived", b |-> "doing"],wq |-> <<>>,finished |-> FALSE,whand |-> [w1 |-> "none", w2 |-> "none"],lastStart |-> "a",fb |-> [a |-> FALSE, b |-> FALSE],ipc |-> [a |-> "captured", b |-> "idle"],policy |-> [a |-> "accept", b |-> "reject"]]),
    ([disk |-> {},apc |-> [a |-> "archived", b |-> "doing"],wq |-> <<>>,finished |-> FALSE,whand |-> [w1 |-> "none", w2 |-> "none"],lastStart |-> "b",fb |-> [a |-> FALSE, b |-> FALSE],ipc |-> [a |-> "captured", b |-> "fetch"],policy |-> [a |-> "accept", b |-> "reject"]]),
    ([disk |-> {},apc |-> [a |-> "archived", b |-> "waiting"],wq |-> <<>>,finished |-> FALSE,whand |-> [w1 |-> "none", w2 |-> "none"],lastStart |-> "b",fb |-> [a |-> FALSE, b |-> FALSE],ipc |-> [a |-> "captured", b |-> "captured"],policy |-> [a |-> "accept", b |-> "reject"]]),
    ([disk |-> {},apc |-> [a |-> "archived", b |-> "waiting"],wq |-> <<>>,finished |-> FALSE,whand |-> [w1 |-> "none", w2 |-> "none"],lastStart |-> "b",fb |-> [a |-> FALSE, b |-> TRUE],ipc |-> [a |-> "captured", b |-> "dropped"],policy |-> [a |-> "accept", b |-> "reject"]]),
    ([disk |-> {},apc |-> [a |-> "archived", b |-> "archived"],wq |-> <<>>,finished |-> FALSE,whand |-> [w1 |-> "none", w2 |-> "none"],lastStart |-> "b",fb |-> [a |-> FALSE, b |-> TRUE],ipc |-> [a |-> "captured", b |-> "dropped"],policy |-> [a |-> "accept", b |-> "reject"]]),
    ([disk |-> {},apc |-> [a |-> "archived", b |-> "archived"],wq |-> <<>>,finished |-> TRUE,whand |-> [w1 |-> "none", w2 |-> "none"],lastStart |-> "b",fb |-> [a |-> FALSE, b |-> TRUE],ipc |-> [a |-> "captured", b |-> "dropped"],policy |-> [a |-> "accept", b |-> "reject"]])
    >>
----


=============================================================================

---- CONFIG WarcWrite_TTrace_1791028211 ----
CONSTANTS
    Items = { "a" , "b" }
    Writers = { "w1" , "w2" }
    SyncWait = TRUE
    Retried = { "a" }
    WaitRetried = FALSE
    OwnFeedback = TRUE

INVARIANT
    _inv

CHECK_DEADLOCK
    \* CHECK_DEADLOCK off because of PROPERTY or INVARIANT above.
    FALSE

INIT
    _init

NEXT
    _next

CONSTANT
    _TETrace <- _trace

ALIAS
    _expression
=============================================================================
\* Generated on Sat Oct 03 11:50:12 UTC 2026