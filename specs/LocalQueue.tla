----------------------------- MODULE LocalQueue -----------------------------
(* C04: the local persistent queue (internal/pkg/source/lq) across a kill or a graceful stop and a   *)
(* restart on the same job.  Durable: the rows of lq.db (FRESH | CLAIMED | gone) and the WARC         *)
(* records.  Volatile: the consumer's buffer of claimed rows, the seeds inside the pipeline (reactor   *)
(* state table), the finisher's batch of ids waiting to be deleted.                                   *)
(*   Claim       one transaction: up to Batch FRESH rows become CLAIMED and enter the buffer          *)
(*   Insert      a buffered row becomes a seed in the reactor                                          *)
(*   Capture     the seed's responses are written to the WARC (synchronous writing)                    *)
(*   Finish      only after Capture: the finish message reaches the queue's finisher (batch)           *)
(*   Delete      one transaction: the batch's rows are deleted                                         *)
(*   Kill        at any moment: everything volatile is gone                                            *)
(*   Stop        graceful: rows of the seeds still in the reactor are reset to FRESH (not the buffer)  *)
(*   Restart     ResetAtStart = TRUE (repaired): CLAIMED rows become FRESH again; FALSE: nothing       *)
EXTENDS Integers, FiniteSets, TLC

CONSTANTS Ids, Batch, ResetAtStart, MaxKills

VARIABLES row, buffer, inflight, captured, finBatch, reported, alive, kills
vars == <<row, buffer, inflight, captured, finBatch, reported, alive, kills>>

Init == /\ row = [i \in Ids |-> "FRESH"] /\ buffer = {} /\ inflight = {} /\ captured = {} /\ finBatch = {}
        /\ reported = {} /\ alive = TRUE /\ kills = 0

Fresh == {i \in Ids : row[i] = "FRESH"}
Claim == /\ alive /\ buffer = {} /\ Fresh # {}
         /\ \E S \in SUBSET Fresh : /\ S # {} /\ Cardinality(S) <= Batch /\ (Cardinality(S) = Batch \/ S = Fresh)
                                    /\ row' = [i \in Ids |-> IF i \in S THEN "CLAIMED" ELSE row[i]]
                                    /\ buffer' = S
         /\ UNCHANGED <<inflight, captured, finBatch, reported, alive, kills>>
Insert(i) == /\ alive /\ i \in buffer /\ Cardinality(inflight) < Batch
             /\ buffer' = buffer \ {i} /\ inflight' = inflight \cup {i}
             /\ UNCHANGED <<row, captured, finBatch, reported, alive, kills>>
Capture(i) == /\ alive /\ i \in inflight /\ i \notin captured
              /\ captured' = captured \cup {i}
              /\ UNCHANGED <<row, buffer, inflight, finBatch, reported, alive, kills>>
Finish(i) == /\ alive /\ i \in inflight /\ i \in captured
             /\ inflight' = inflight \ {i} /\ finBatch' = finBatch \cup {i} /\ reported' = reported \cup {i}
             /\ UNCHANGED <<row, buffer, captured, alive, kills>>
Delete == /\ alive /\ finBatch # {}
          /\ row' = [i \in Ids |-> IF i \in finBatch THEN "gone" ELSE row[i]] /\ finBatch' = {}
          /\ UNCHANGED <<buffer, inflight, captured, reported, alive, kills>>
Kill == /\ alive /\ kills < MaxKills
        /\ alive' = FALSE /\ kills' = kills + 1 /\ buffer' = {} /\ inflight' = {} /\ finBatch' = {}
        /\ UNCHANGED <<row, captured, reported>>
Stop == /\ alive /\ kills < MaxKills
        /\ row' = [i \in Ids |-> IF i \in inflight /\ row[i] = "CLAIMED" THEN "FRESH" ELSE row[i]]
        /\ alive' = FALSE /\ kills' = kills + 1 /\ buffer' = {} /\ inflight' = {} /\ finBatch' = {}
        /\ UNCHANGED <<captured, reported>>
Restart == /\ ~alive /\ alive' = TRUE
           /\ row' = IF ResetAtStart THEN [i \in Ids |-> IF row[i] = "CLAIMED" THEN "FRESH" ELSE row[i]] ELSE row
           /\ UNCHANGED <<buffer, inflight, captured, finBatch, reported, kills>>

Next == Claim \/ Delete \/ Kill \/ Stop \/ Restart \/ \E i \in Ids : Insert(i) \/ Capture(i) \/ Finish(i)
Live == Claim \/ Delete \/ Restart \/ \E i \in Ids : Insert(i) \/ Capture(i) \/ Finish(i)
Spec == Init /\ [][Next]_vars /\ WF_vars(Live)

\* finished implies captured (the WARC write precedes the finish message)
FinishedCaptured == reported \subseteq captured
\* a row that is handed out is held by the running crawler - otherwise it is stranded
NoStranded == alive => \A i \in Ids : row[i] = "CLAIMED" => (i \in buffer \cup inflight \cup finBatch)
\* every URL of the queue is eventually crawled and acknowledged
Drains == <>[](\A i \in Ids : row[i] = "gone")
=============================================================================
