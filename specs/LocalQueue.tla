----------------------------- MODULE LocalQueue -----------------------------
(* C04: the local persistent queue (internal/pkg/source/lq) across a kill or a graceful stop and a   *)
(* restart on the same job.  Durable: the rows of lq.db (FRESH | CLAIMED | gone) and the WARC         *)
(* records.  Volatile, one variable per place a claimed row can be in the running crawler:            *)
(*   slice     the consumer fetcher's batch of claimed rows not yet pushed                              *)
(*   chanbuf   the rows in the consumer's channel (capacity Batch = --workers)                          *)
(*   sending   the row the consumer's sender holds while it waits for a reactor token                   *)
(*   inflight  the seeds inside the pipeline (reactor state table)                                      *)
(*   finmsg    seeds the reactor has released (token free) whose finish message is on its way to the   *)
(*             queue's finisher                                                                       *)
(*   finBatch  the finisher's ids waiting to be deleted                                                 *)
(* Actions:                                                                                            *)
(*   Claim       one transaction: up to Batch FRESH rows become CLAIMED (only when the fetcher has      *)
(*               pushed its previous batch)                                                            *)
(*   Push, Take, Insert   fetcher -> channel -> sender -> reactor                                       *)
(*   Capture     the seed's responses are written to the WARC (synchronous writing)                    *)
(*   Finish      only after Capture: the finisher marks the seed finished in the reactor and sends the  *)
(*               finish message;  Recv: the message reaches the queue's finisher (batch)                *)
(*   Delete(S)   one transaction: rows of a batch of finished ids are deleted                           *)
(*   Kill        at any moment: everything volatile is gone                                            *)
(*   Stop        graceful: rows of the seeds still in the reactor are reset to FRESH (nothing else)     *)
(*   Restart     ResetAtStart = TRUE (repaired): CLAIMED rows become FRESH again; FALSE: nothing       *)
EXTENDS Integers, FiniteSets, TLC

CONSTANTS Ids, Batch, ResetAtStart, MaxKills

VARIABLES row, slice, chanbuf, sending, inflight, captured, finmsg, finBatch, reported, alive, kills
vars == <<row, slice, chanbuf, sending, inflight, captured, finmsg, finBatch, reported, alive, kills>>

None == "none"
Init == /\ row = [i \in Ids |-> "FRESH"] /\ slice = {} /\ chanbuf = {} /\ sending = None /\ inflight = {}
        /\ captured = {} /\ finmsg = {} /\ finBatch = {} /\ reported = {} /\ alive = TRUE /\ kills = 0

Fresh == {i \in Ids : row[i] = "FRESH"}
ClaimSet(S) == /\ alive /\ slice = {} /\ S # {} /\ S \subseteq Fresh
               /\ Cardinality(S) <= Batch /\ (Cardinality(S) = Batch \/ S = Fresh)
               /\ row' = [i \in Ids |-> IF i \in S THEN "CLAIMED" ELSE row[i]]
               /\ slice' = S
               /\ UNCHANGED <<chanbuf, sending, inflight, captured, finmsg, finBatch, reported, alive, kills>>
Claim == \E S \in SUBSET Fresh : ClaimSet(S)
Push(i) == /\ alive /\ i \in slice /\ Cardinality(chanbuf) < Batch
           /\ slice' = slice \ {i} /\ chanbuf' = chanbuf \cup {i}
           /\ UNCHANGED <<row, sending, inflight, captured, finmsg, finBatch, reported, alive, kills>>
Take(i) == /\ alive /\ sending = None /\ i \in chanbuf
           /\ chanbuf' = chanbuf \ {i} /\ sending' = i
           /\ UNCHANGED <<row, slice, inflight, captured, finmsg, finBatch, reported, alive, kills>>
Insert == /\ alive /\ sending # None /\ Cardinality(inflight) < Batch
          /\ inflight' = inflight \cup {sending} /\ sending' = None
          /\ UNCHANGED <<row, slice, chanbuf, captured, finmsg, finBatch, reported, alive, kills>>
Capture(i) == /\ alive /\ i \in inflight /\ i \notin captured
              /\ captured' = captured \cup {i}
              /\ UNCHANGED <<row, slice, chanbuf, sending, inflight, finmsg, finBatch, reported, alive, kills>>
Finish(i) == /\ alive /\ i \in inflight /\ i \in captured
             /\ inflight' = inflight \ {i} /\ finmsg' = finmsg \cup {i} /\ reported' = reported \cup {i}
             /\ UNCHANGED <<row, slice, chanbuf, sending, captured, finBatch, alive, kills>>
Recv(i) == /\ alive /\ i \in finmsg
           /\ finmsg' = finmsg \ {i} /\ finBatch' = finBatch \cup {i}
           /\ UNCHANGED <<row, slice, chanbuf, sending, inflight, captured, reported, alive, kills>>
DeleteSet(S) == /\ alive /\ S # {} /\ S \subseteq finBatch
                /\ row' = [i \in Ids |-> IF i \in S THEN "gone" ELSE row[i]] /\ finBatch' = finBatch \ S
                /\ UNCHANGED <<slice, chanbuf, sending, inflight, captured, finmsg, reported, alive, kills>>
Delete == \E S \in SUBSET finBatch : DeleteSet(S)
Volatile0 == slice' = {} /\ chanbuf' = {} /\ sending' = None /\ inflight' = {} /\ finmsg' = {} /\ finBatch' = {}
Kill == /\ alive /\ kills < MaxKills
        /\ alive' = FALSE /\ kills' = kills + 1 /\ Volatile0
        /\ UNCHANGED <<row, captured, reported>>
Stop == /\ alive /\ kills < MaxKills
        /\ row' = [i \in Ids |-> IF i \in inflight /\ row[i] = "CLAIMED" THEN "FRESH" ELSE row[i]]
        /\ alive' = FALSE /\ kills' = kills + 1 /\ Volatile0
        /\ UNCHANGED <<captured, reported>>
Restart == /\ ~alive /\ alive' = TRUE
           /\ row' = IF ResetAtStart THEN [i \in Ids |-> IF row[i] = "CLAIMED" THEN "FRESH" ELSE row[i]] ELSE row
           /\ UNCHANGED <<slice, chanbuf, sending, inflight, captured, finmsg, finBatch, reported, kills>>

Next == Claim \/ Delete \/ Kill \/ Stop \/ Restart \/ Insert \/ \E i \in Ids : Push(i) \/ Take(i) \/ Capture(i) \/ Finish(i) \/ Recv(i)
Live == Claim \/ Delete \/ Restart \/ Insert \/ \E i \in Ids : Push(i) \/ Take(i) \/ Capture(i) \/ Finish(i) \/ Recv(i)
Spec == Init /\ [][Next]_vars /\ WF_vars(Live)

Held == slice \cup chanbuf \cup (IF sending = None THEN {} ELSE {sending}) \cup inflight \cup finmsg \cup finBatch
\* finished implies captured (the WARC write precedes the finish message)
FinishedCaptured == reported \subseteq captured
\* a row that is handed out is held by the running crawler - otherwise it is stranded
NoStranded == alive => \A i \in Ids : row[i] = "CLAIMED" => i \in Held
\* a row is in at most one place
OnePlace == /\ slice \cap chanbuf = {} /\ slice \cap inflight = {} /\ chanbuf \cap inflight = {} /\ finBatch \cap inflight = {} /\ finmsg \cap inflight = {} /\ finmsg \cap finBatch = {}
            /\ (sending # None => sending \notin slice \cup chanbuf \cup inflight \cup finBatch)
\* every URL of the queue is eventually crawled and acknowledged
Drains == <>[](\A i \in Ids : row[i] = "gone")
=============================================================================
