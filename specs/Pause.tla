-------------------------------- MODULE Pause --------------------------------
(* C14: the pause manager (internal/pkg/controler/pause) and the stage workers' side of the      *)
(* protocol, one action per blocking point / atomic step.                                         *)
(*   Pause : [lock] CAS false->true, then a non-blocking send on every subscriber's PauseCh        *)
(*   Resume: [lock] [return at once if nothing is paused] snapshot of the subscribers, one receive *)
(*           from each one's ResumeCh (closed counts), then isPaused := false                      *)
(*   worker: select{ctx, PauseCh, work}; on a pause signal it blocks sending on ResumeCh           *)
(*           [or leaves on ctx]; on exit it unsubscribes (closes its channels)                     *)
(* Serialize / Guard / WorkerCtx / Preload select the repaired code (TRUE) or the pinned commit:   *)
(*   Serialize - Pause and Resume hold the manager's mutex                                        *)
(*   Guard     - Resume returns immediately when nothing is paused                                 *)
(*   WorkerCtx - a worker waiting to be resumed also listens to its stop context                   *)
(*   Preload   - Subscribe during a pause hands the new subscriber the pause signal               *)
EXTENDS Integers, Sequences, FiniteSets, TLC

CONSTANTS Workers, Ctrls, MaxCalls, MaxWork, LateWorkers,
          Serialize, Guard, WorkerCtx, Preload

VARIABLES mu,        \* "free" or the controller holding the manager mutex
          isPaused,
          subs,      \* subscribed workers
          sig,       \* sig[w]: a pause signal is buffered in w's PauseCh
          closed,    \* closed[w]: w unsubscribed (channels closed)
          wpc,       \* worker: "unborn" | "select" | "acked" | "work" | "exited"
          cpc,       \* controller: "idle" | "p.lock" | "p.cas" | "p.send" | "r.lock" | "r.check" | "r.wait" | "r.clear"
          rwait,     \* rwait[c]: subscribers Resume still has to hear from
          calls,     \* calls issued per controller
          work,      \* work items taken per worker (bounded)
          stopping   \* the stage contexts are cancelled
vars == <<mu, isPaused, subs, sig, closed, wpc, cpc, rwait, calls, work, stopping>>

Init == /\ mu = "free" /\ isPaused = FALSE
        /\ subs = Workers \ LateWorkers
        /\ sig = [w \in Workers |-> FALSE] /\ closed = [w \in Workers |-> FALSE]
        /\ wpc = [w \in Workers |-> IF w \in LateWorkers THEN "unborn" ELSE "select"]
        /\ cpc = [c \in Ctrls |-> "idle"] /\ rwait = [c \in Ctrls |-> {}]
        /\ calls = [c \in Ctrls |-> 0] /\ work = [w \in Workers |-> 0]
        /\ stopping = FALSE

CGoto(c, l) == cpc' = [cpc EXCEPT ![c] = l]

\* ---------------------------------------------------------------- controllers
CallPause(c) == /\ cpc[c] = "idle" /\ calls[c] < MaxCalls
                /\ calls' = [calls EXCEPT ![c] = @ + 1]
                /\ CGoto(c, IF Serialize THEN "p.lock" ELSE "p.cas")
                /\ UNCHANGED <<mu, isPaused, subs, sig, closed, wpc, rwait, work, stopping>>
CallResume(c) == /\ cpc[c] = "idle" /\ calls[c] < MaxCalls
                 /\ calls' = [calls EXCEPT ![c] = @ + 1]
                 /\ CGoto(c, IF Serialize THEN "r.lock" ELSE "r.check")
                 /\ UNCHANGED <<mu, isPaused, subs, sig, closed, wpc, rwait, work, stopping>>

Unlock(c) == mu' = IF mu = c THEN "free" ELSE mu

PLock(c) == /\ cpc[c] = "p.lock" /\ mu = "free" /\ mu' = c /\ CGoto(c, "p.cas")
            /\ UNCHANGED <<isPaused, subs, sig, closed, wpc, rwait, calls, work, stopping>>
PCas(c) == /\ cpc[c] = "p.cas"
           /\ IF isPaused THEN CGoto(c, "idle") /\ Unlock(c) /\ UNCHANGED isPaused
              ELSE isPaused' = TRUE /\ CGoto(c, "p.send") /\ UNCHANGED mu
           /\ UNCHANGED <<subs, sig, closed, wpc, rwait, calls, work, stopping>>
\* Range over the subscribers: non-blocking send to every live one
PSend(c) == /\ cpc[c] = "p.send"
            /\ sig' = [w \in Workers |-> sig[w] \/ (w \in subs /\ ~closed[w])]
            /\ CGoto(c, "idle") /\ Unlock(c)
            /\ UNCHANGED <<isPaused, subs, closed, wpc, rwait, calls, work, stopping>>

RLock(c) == /\ cpc[c] = "r.lock" /\ mu = "free" /\ mu' = c /\ CGoto(c, "r.check")
            /\ UNCHANGED <<isPaused, subs, sig, closed, wpc, rwait, calls, work, stopping>>
RCheck(c) == /\ cpc[c] = "r.check"
             /\ IF Guard /\ ~isPaused
                THEN CGoto(c, "idle") /\ Unlock(c) /\ UNCHANGED rwait
                ELSE rwait' = [rwait EXCEPT ![c] = subs] /\ CGoto(c, "r.wait") /\ UNCHANGED mu
             /\ UNCHANGED <<isPaused, subs, sig, closed, wpc, calls, work, stopping>>
\* one of Resume's receiver goroutines completes: rendezvous with an acked worker, or closed channel
RRecv(c, w) == /\ cpc[c] = "r.wait" /\ w \in rwait[c]
               /\ \/ /\ wpc[w] = "acked" /\ ~closed[w]
                     /\ wpc' = [wpc EXCEPT ![w] = "select"]
                  \/ closed[w] /\ UNCHANGED wpc
               /\ rwait' = [rwait EXCEPT ![c] = @ \ {w}]
               /\ UNCHANGED <<mu, isPaused, subs, sig, closed, cpc, calls, work, stopping>>
RJoin(c) == /\ cpc[c] = "r.wait" /\ rwait[c] = {} /\ CGoto(c, "r.clear")
            /\ UNCHANGED <<mu, isPaused, subs, sig, closed, wpc, rwait, calls, work, stopping>>
RClear(c) == /\ cpc[c] = "r.clear" /\ isPaused' = FALSE /\ CGoto(c, "idle") /\ Unlock(c)
             /\ UNCHANGED <<subs, sig, closed, wpc, rwait, calls, work, stopping>>

\* ---------------------------------------------------------------- workers
Exit(w) == /\ wpc' = [wpc EXCEPT ![w] = "exited"]
           /\ subs' = subs \ {w} /\ closed' = [closed EXCEPT ![w] = TRUE]
\* a worker that starts late subscribes [taking the mutex; during a pause it is handed the signal]
Subscribe(w) == /\ wpc[w] = "unborn" /\ (Serialize /\ Preload => mu = "free")
                /\ wpc' = [wpc EXCEPT ![w] = "select"] /\ subs' = subs \cup {w}
                /\ sig' = [sig EXCEPT ![w] = Preload /\ isPaused]
                /\ UNCHANGED <<mu, isPaused, closed, cpc, rwait, calls, work, stopping>>
WSelect(w) == /\ wpc[w] = "select"
              /\ \/ stopping /\ Exit(w) /\ UNCHANGED <<sig, work>>
                 \/ sig[w] /\ sig' = [sig EXCEPT ![w] = FALSE] /\ wpc' = [wpc EXCEPT ![w] = "acked"]
                    /\ UNCHANGED <<subs, closed, work>>
                 \/ work[w] < MaxWork /\ work' = [work EXCEPT ![w] = @ + 1] /\ wpc' = [wpc EXCEPT ![w] = "work"]
                    /\ UNCHANGED <<subs, closed, sig>>
              /\ UNCHANGED <<mu, isPaused, cpc, rwait, calls, stopping>>
WDone(w) == /\ wpc[w] = "work" /\ wpc' = [wpc EXCEPT ![w] = "select"]
            /\ UNCHANGED <<mu, isPaused, subs, sig, closed, cpc, rwait, calls, work, stopping>>
\* blocked on ResumeCh: only the repaired worker also leaves on its context
WAckedStop(w) == /\ WorkerCtx /\ wpc[w] = "acked" /\ stopping /\ Exit(w)
                 /\ UNCHANGED <<mu, isPaused, sig, cpc, rwait, calls, work, stopping>>
Stop == /\ ~stopping /\ stopping' = TRUE
        /\ UNCHANGED <<mu, isPaused, subs, sig, closed, wpc, cpc, rwait, calls, work>>

CtrlStep(c) == PLock(c) \/ PCas(c) \/ PSend(c) \/ RLock(c) \/ RCheck(c) \/ RJoin(c) \/ RClear(c)
               \/ \E w \in Workers : RRecv(c, w)
WorkerStep(w) == Subscribe(w) \/ WSelect(w) \/ WDone(w) \/ WAckedStop(w)

Next == \/ \E c \in Ctrls : CallPause(c) \/ CallResume(c) \/ CtrlStep(c)
        \/ \E w \in Workers : WorkerStep(w)
        \/ Stop

Spec == Init /\ [][Next]_vars
FairSpec == /\ Spec
            /\ \A c \in Ctrls : WF_vars(CtrlStep(c))
            /\ \A w \in Workers : WF_vars(WSelect(w) \/ WDone(w) \/ WAckedStop(w) \/ Subscribe(w))

-----------------------------------------------------------------------------
\* a worker waiting to be resumed exists only while the pipeline is paused
AckedImpliesPaused == \A w \in Workers : wpc[w] = "acked" => isPaused
\* once Pause has returned every subscriber either acknowledged or still has the signal waiting
PauseReachesAll == (isPaused /\ \A c \in Ctrls : cpc[c] \notin {"p.send", "r.wait", "r.clear", "r.check"})
                      => \A w \in subs : wpc[w] = "acked" \/ sig[w]
\* no caller and no worker is blocked forever
CallsReturn == \A c \in Ctrls : (cpc[c] # "idle") ~> (cpc[c] = "idle")
WorkersLeave == \A w \in Workers : (stopping /\ wpc[w] # "unborn") ~> (wpc[w] = "exited")
=============================================================================
