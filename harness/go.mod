module github.com/internetarchive/Zeno/verifharness

go 1.24.2

require github.com/internetarchive/Zeno v0.0.0

require (
	github.com/CorentinB/warc v0.8.76 // indirect
	github.com/PuerkitoBio/goquery v1.10.3 // indirect
	github.com/andybalholm/cascadia v1.3.3 // indirect
	github.com/davecgh/go-spew v1.1.2-0.20180830191138-d8f796af33cc // indirect
	github.com/gabriel-vasile/mimetype v1.4.8 // indirect
	golang.org/x/net v0.39.0 // indirect
	golang.org/x/text v0.24.0 // indirect
)

replace github.com/internetarchive/Zeno => /repo
