module github.com/internetarchive/Zeno/verifharness

go 1.24.2

require (
	github.com/CorentinB/warc v0.8.76
	github.com/gabriel-vasile/mimetype v1.4.8
	github.com/gobwas/ws v1.4.0
	github.com/grafov/m3u8 v0.12.1
	github.com/internetarchive/Zeno v0.0.0
	github.com/ncruces/go-sqlite3 v0.25.0
	github.com/spf13/pflag v1.0.6
)

require (
	github.com/ImVexed/fasturl v0.0.0-20230304231329-4e41488060f3 // indirect
	github.com/PuerkitoBio/goquery v1.10.3 // indirect
	github.com/ada-url/goada v0.0.0-20250104020233-00cbf4dc9da1 // indirect
	github.com/andybalholm/brotli v1.1.1 // indirect
	github.com/andybalholm/cascadia v1.3.3 // indirect
	github.com/armon/go-metrics v0.4.1 // indirect
	github.com/beorn7/perks v1.0.1 // indirect
	github.com/cespare/xxhash/v2 v2.3.0 // indirect
	github.com/cloudflare/circl v1.6.1 // indirect
	github.com/davecgh/go-spew v1.1.2-0.20180830191138-d8f796af33cc // indirect
	github.com/dolthub/maphash v0.1.0 // indirect
	github.com/dustin/go-humanize v1.0.1 // indirect
	github.com/fatih/color v1.16.0 // indirect
	github.com/fsnotify/fsnotify v1.8.0 // indirect
	github.com/gammazero/deque v1.0.0 // indirect
	github.com/go-viper/mapstructure/v2 v2.2.1 // indirect
	github.com/gobwas/httphead v0.1.0 // indirect
	github.com/gobwas/pool v0.2.1 // indirect
	github.com/golang/snappy v0.0.4 // indirect
	github.com/google/uuid v1.6.0 // indirect
	github.com/hashicorp/consul/api v1.32.0 // indirect
	github.com/hashicorp/errwrap v1.1.0 // indirect
	github.com/hashicorp/go-cleanhttp v0.5.2 // indirect
	github.com/hashicorp/go-hclog v1.5.0 // indirect
	github.com/hashicorp/go-immutable-radix v1.3.1 // indirect
	github.com/hashicorp/go-multierror v1.1.1 // indirect
	github.com/hashicorp/go-rootcerts v1.0.2 // indirect
	github.com/hashicorp/golang-lru v0.5.4 // indirect
	github.com/hashicorp/serf v0.10.1 // indirect
	github.com/hhrutter/lzw v1.0.0 // indirect
	github.com/hhrutter/tiff v1.0.1 // indirect
	github.com/internetarchive/gocrawlhq v1.2.31 // indirect
	github.com/klauspost/compress v1.18.0 // indirect
	github.com/mattn/go-colorable v0.1.13 // indirect
	github.com/mattn/go-isatty v0.0.20 // indirect
	github.com/mattn/go-runewidth v0.0.16 // indirect
	github.com/maypok86/otter v1.2.4 // indirect
	github.com/miekg/dns v1.1.65 // indirect
	github.com/mitchellh/mapstructure v1.5.0 // indirect
	github.com/munnerz/goautoneg v0.0.0-20191010083416-a7dc8b61c822 // indirect
	github.com/ncruces/julianday v1.0.0 // indirect
	github.com/paulbellamy/ratecounter v0.2.0 // indirect
	github.com/pdfcpu/pdfcpu v0.9.1 // indirect
	github.com/pelletier/go-toml/v2 v2.2.3 // indirect
	github.com/philippgille/gokv/encoding v0.7.0 // indirect
	github.com/philippgille/gokv/leveldb v0.7.0 // indirect
	github.com/philippgille/gokv/util v0.7.0 // indirect
	github.com/pkg/errors v0.9.1 // indirect
	github.com/prometheus/client_golang v1.22.0 // indirect
	github.com/prometheus/client_model v0.6.1 // indirect
	github.com/prometheus/common v0.62.0 // indirect
	github.com/prometheus/procfs v0.15.1 // indirect
	github.com/refraction-networking/utls v1.6.7 // indirect
	github.com/rivo/uniseg v0.4.7 // indirect
	github.com/sagikazarmark/locafero v0.7.0 // indirect
	github.com/samber/lo v1.49.1 // indirect
	github.com/samber/slog-multi v1.4.0 // indirect
	github.com/sourcegraph/conc v0.3.0 // indirect
	github.com/spf13/afero v1.12.0 // indirect
	github.com/spf13/cast v1.7.1 // indirect
	github.com/spf13/viper v1.20.1 // indirect
	github.com/subosito/gotenv v1.6.0 // indirect
	github.com/syndtr/goleveldb v1.0.0 // indirect
	github.com/tetratelabs/wazero v1.9.0 // indirect
	github.com/ulikunitz/xz v0.5.12 // indirect
	golang.org/x/crypto v0.37.0 // indirect
	golang.org/x/exp v0.0.0-20250106191152-7588d65b2ba8 // indirect
	golang.org/x/image v0.24.0 // indirect
	golang.org/x/net v0.39.0 // indirect
	golang.org/x/sync v0.13.0 // indirect
	golang.org/x/sys v0.32.0 // indirect
	golang.org/x/text v0.24.0 // indirect
	google.golang.org/protobuf v1.36.5 // indirect
	gopkg.in/yaml.v2 v2.4.0 // indirect
	gopkg.in/yaml.v3 v3.0.1 // indirect
	mvdan.cc/xurls/v2 v2.6.0 // indirect
)

replace github.com/internetarchive/Zeno => /repo
