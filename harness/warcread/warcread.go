// Package warcread is an independent reader for the WARC files Zeno writes (it shares no code with
// the WARC library): every gzip member is decompressed on its own, the WARC header block is parsed,
// the declared Content-Length is honoured, and for response / revisit records the HTTP message is
// parsed (de-chunked, content-decoded) and the SHA-1 and length of the entity body are computed.
package warcread

import (
	"bufio"
	"bytes"
	"compress/gzip"
	"crypto/sha1"
	"encoding/base32"
	"encoding/hex"
	"fmt"
	"io"
	"net/http"
	"os"
	"strconv"
	"strings"
)

// Record is one WARC record as found on disk.
type Record struct {
	File     string `json:"file"`
	Type     string `json:"type"`
	URI      string `json:"uri"`
	Status   int    `json:"status"`
	SHA1     string `json:"sha1"` // entity body after de-chunking and content-decoding ("" for non-HTTP records)
	Len      int    `json:"len"`
	Refers   string `json:"refers"`   // WARC-Refers-To-Target-URI (revisit)
	Profile  string `json:"profile"`  // WARC-Profile (revisit)
	PDigest  string `json:"pdigest"`  // WARC-Payload-Digest as written
	PDHex    string `json:"pdhex"`    // the same digest as lower-case hex ("" if not sha1 base32)
	Complete bool   `json:"complete"` // the member decompressed to EOF and held a whole record
	Err      string `json:"err,omitempty"`
}

// countingReader lets us know where a gzip member ended in the underlying file.
type countingReader struct {
	r *bufio.Reader
	n int64
}

func (c *countingReader) Read(p []byte) (int, error) {
	n, err := c.r.Read(p)
	c.n += int64(n)
	return n, err
}
func (c *countingReader) ReadByte() (byte, error) {
	b, err := c.r.ReadByte()
	if err == nil {
		c.n++
	}
	return b, err
}

// ReadFrom parses the members of path starting at byte offset off. It returns the records, the
// offset after the last complete member, and whether trailing bytes could not be parsed as a
// complete member (a record being written, or damage).
func ReadFrom(path string, off int64) (recs []Record, next int64, trailing bool, err error) {
	f, err := os.Open(path)
	if err != nil {
		return nil, off, false, err
	}
	defer f.Close()
	if _, err := f.Seek(off, io.SeekStart); err != nil {
		return nil, off, false, err
	}
	cr := &countingReader{r: bufio.NewReader(f)}
	next = off
	for {
		if _, perr := cr.r.Peek(1); perr == io.EOF {
			return recs, next, false, nil
		}
		zr, zerr := gzip.NewReader(cr)
		if zerr != nil {
			return recs, next, true, nil
		}
		zr.Multistream(false)
		data, rerr := io.ReadAll(zr)
		if rerr != nil {
			return recs, next, true, nil // member not complete (yet)
		}
		next = off + cr.n
		if len(data) == 0 {
			continue // an empty gzip member (written when a file is closed) holds no record
		}
		rec := parseRecord(data)
		rec.File = path
		recs = append(recs, rec)
	}
}

func parseRecord(data []byte) Record {
	var rec Record
	br := bufio.NewReader(bytes.NewReader(data))
	line, err := br.ReadString('\n')
	if err != nil || !strings.HasPrefix(line, "WARC/") {
		rec.Err = "no WARC version line"
		return rec
	}
	hdr := map[string]string{}
	for {
		l, err := br.ReadString('\n')
		if err != nil {
			rec.Err = "header block not terminated"
			return rec
		}
		l = strings.TrimRight(l, "\r\n")
		if l == "" {
			break
		}
		if i := strings.Index(l, ":"); i > 0 {
			hdr[strings.ToLower(l[:i])] = strings.TrimSpace(l[i+1:])
		}
	}
	rec.Type = hdr["warc-type"]
	rec.URI = hdr["warc-target-uri"]
	rec.Refers = hdr["warc-refers-to-target-uri"]
	rec.Profile = hdr["warc-profile"]
	rec.PDigest = hdr["warc-payload-digest"]
	if strings.HasPrefix(rec.PDigest, "sha1:") {
		if raw, err := base32.StdEncoding.DecodeString(rec.PDigest[5:]); err == nil {
			rec.PDHex = hex.EncodeToString(raw)
		}
	}
	cl, err := strconv.Atoi(hdr["content-length"])
	if err != nil {
		rec.Err = "bad Content-Length"
		return rec
	}
	block := make([]byte, cl)
	if _, err := io.ReadFull(br, block); err != nil {
		rec.Err = fmt.Sprintf("block shorter than Content-Length %d", cl)
		return rec
	}
	tail, _ := io.ReadAll(br)
	if string(tail) != "\r\n\r\n" {
		rec.Err = fmt.Sprintf("record not followed by CRLF CRLF (%q)", string(tail))
		return rec
	}
	rec.Complete = true
	if (rec.Type == "response" || rec.Type == "revisit") && strings.Contains(hdr["content-type"], "application/http") {
		resp, err := http.ReadResponse(bufio.NewReader(bytes.NewReader(block)), nil)
		if err != nil {
			rec.Err = "HTTP response not parseable: " + err.Error()
			return rec
		}
		rec.Status = resp.StatusCode
		body, berr := io.ReadAll(resp.Body) // de-chunks
		if berr != nil && rec.Type == "response" {
			rec.Err = "HTTP body incomplete: " + berr.Error()
		}
		if strings.EqualFold(resp.Header.Get("Content-Encoding"), "gzip") && len(body) > 0 {
			if zr, zerr := gzip.NewReader(bytes.NewReader(body)); zerr == nil {
				if dec, derr := io.ReadAll(zr); derr == nil {
					body = dec
				} else if rec.Type == "response" {
					rec.Err = "gzip content not decodable: " + derr.Error()
				}
			}
		}
		sum := sha1.Sum(body)
		rec.SHA1, rec.Len = hex.EncodeToString(sum[:]), len(body)
	}
	return rec
}
