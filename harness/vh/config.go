package vh

import (
	"io"
	"log/slog"
	"os"
	"time"

	"github.com/internetarchive/Zeno/internal/pkg/config"
	"github.com/internetarchive/Zeno/internal/pkg/stats"
)

// InitConfig creates Zeno's global configuration without cobra/viper flags and fills in the
// values a run needs (DESIGN.md appendix H). mutate may override anything before
// GenerateCrawlConfig derives JobPath etc.
func InitConfig(job string, mutate func(c *config.Config)) *config.Config {
	c := InitConfigOnly(job, mutate)
	stats.Init()
	return c
}

// InitConfigOnly is InitConfig without initialising the stats package (controler.Start does that itself).
func InitConfigOnly(job string, mutate func(c *config.Config)) *config.Config {
	os.Setenv("HOME", os.TempDir()) // no user config file
	slog.SetDefault(slog.New(slog.NewTextHandler(io.Discard, nil)))
	if err := config.InitConfig(); err != nil {
		panic(err)
	}
	c := config.Get()
	c.Job = job
	c.WorkersCount = 2
	c.MaxConcurrentAssets = 2
	c.MaxHops = 0
	c.MaxRedirect = 3
	c.MaxRetry = 1
	c.HTTPTimeout = 5
	c.HTTPReadDeadline = 5
	c.WARCPoolSize = 1
	c.WARCSize = 1024
	c.WARCDedupeSize = 1024
	c.WARCPrefix = "VERIF"
	c.WARCDiscardStatus = []int{429}
	c.MinSpaceRequired = 0.001
	c.DisableRateLimit = true
	c.RateLimitCapacity = 1000
	c.RateLimitRefillRate = 1000
	c.RateLimitCleanupFrequency = 5 * time.Minute
	c.NoStdoutLogging = true
	c.NoStderrLogging = true
	c.NoFileLogging = true
	c.UserAgent = "zeno-verif"
	if mutate != nil {
		mutate(c)
	}
	if err := config.GenerateCrawlConfig(); err != nil {
		panic(err)
	}
	return c
}
