package vh

import (
	"strings"

	"github.com/internetarchive/Zeno/pkg/models"
)

// UrlName maps a concrete URL back to the abstract name used by the specification:
// the last path segment ("http://example.com/x/b" -> "b").
func UrlName(u *models.URL) string {
	s := u.Raw
	if p := u.GetParsed(); p != nil {
		s = p.Path
	}
	if i := strings.LastIndex(s, "/"); i >= 0 {
		s = s[i+1:]
	}
	return s
}

// Node is one entry of the pre-order projection of an item tree.
type Node struct {
	D  int    `json:"d"`
	U  string `json:"u"`
	St string `json:"st"`
}

// Project returns the identity-free pre-order list of the tree plus the pointer-level
// facts the list cannot express.
type Projection struct {
	Nodes []Node
	Items []*models.Item // same order as Nodes
	IDs   bool           // ids unique
	Links bool           // child.parent == node for every edge, seed has no parent
	CC    string         // CheckConsistency() error text, "" when nil
}

func Project(seed *models.Item, name func(*models.URL) string) Projection {
	p := Projection{IDs: true, Links: true}
	ids := map[string]bool{}
	var walk func(n *models.Item, d int, parent *models.Item)
	walk = func(n *models.Item, d int, parent *models.Item) {
		if n == nil {
			p.Links = false
			return
		}
		if ids[n.GetID()] {
			p.IDs = false
		}
		ids[n.GetID()] = true
		if n.GetParent() != parent {
			p.Links = false
		}
		p.Nodes = append(p.Nodes, Node{D: d, U: name(n.GetURL()), St: n.GetStatus().String()})
		p.Items = append(p.Items, n)
		for _, c := range n.GetChildren() {
			walk(c, d+1, n)
		}
	}
	walk(seed, 0, nil)
	if err := seed.CheckConsistency(); err != nil {
		p.CC = err.Error()
	}
	return p
}

var statusByName = map[string]models.ItemState{
	"Fresh": models.ItemFresh, "PreProcessed": models.ItemPreProcessed, "Archived": models.ItemArchived,
	"Failed": models.ItemFailed, "Completed": models.ItemCompleted, "Seen": models.ItemSeen,
	"GotRedirected": models.ItemGotRedirected, "GotChildren": models.ItemGotChildren,
}

func Status(name string) (models.ItemState, bool) {
	s, ok := statusByName[name]
	return s, ok
}
