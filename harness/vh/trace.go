// Package vh holds helpers shared by the verification harness commands:
// the ndjson trace writer, the item-tree projection and seeded randomness.
package vh

import (
	"bufio"
	"bytes"
	"encoding/json"
	"math/rand"
	"os"
	"strconv"
	"sync"
	"sync/atomic"
	"time"
)

// MaxEvents bounds the size of a trace (safety net against runaway scenarios).
var MaxEvents = 400000

// MaxBytes bounds the size of a trace in bytes (events carry whole trees: a runaway chain makes them grow).
var MaxBytes int64 = 150 << 20

// Tracer writes one JSON object per line. Seq numbers come from one atomic
// counter taken inside Emit, so that cross-goroutine order is the order in
// which the events were recorded (callers emit while holding the lock that
// protects the state they describe, or emit call/return pairs).
type Tracer struct {
	mu  sync.Mutex
	w   *bufio.Writer
	f   *os.File
	seq atomic.Int64
	N   int
	B   int64
	// Sync flushes after every event so that a crash of the code under test loses nothing.
	Sync bool
	// Stamp adds a wall-clock offset (diagnostics only, never used for ordering).
	Stamp bool
	t0    time.Time
}

func NewTracer(path string) (*Tracer, error) {
	f, err := os.Create(path)
	if err != nil {
		return nil, err
	}
	return &Tracer{f: f, w: bufio.NewWriterSize(f, 1<<20), t0: time.Now()}, nil
}

// Emit writes ev with a fresh "seq" field.
func (t *Tracer) Emit(ev map[string]any) {
	t.mu.Lock()
	defer t.mu.Unlock()
	if t.N >= MaxEvents || t.B >= MaxBytes {
		// a runaway scenario must not fill the disk: the trace ends with a marker and the process stops
		if t.N != MaxEvents+1 {
			t.N = MaxEvents
			t.w.WriteString(`{"ev":"trace.truncated","seq":0}` + "\n")
			t.w.Flush()
			t.N++
		}
		os.Exit(3)
	}
	ev["seq"] = t.seq.Add(1)
	if t.Stamp {
		ev["us"] = time.Since(t.t0).Microseconds()
	}
	b, err := json.Marshal(ev)
	if err != nil {
		panic(err)
	}
	// TLC's JSON reader has no null: nil slices / maps are written as empty arrays
	b = bytes.ReplaceAll(b, []byte(":null"), []byte(":[]"))
	t.w.Write(b)
	t.w.WriteByte('\n')
	t.B += int64(len(b)) + 1
	if t.Sync {
		t.w.Flush()
	}
	t.N++
}

func (t *Tracer) Close() error {
	t.mu.Lock()
	defer t.mu.Unlock()
	if err := t.w.Flush(); err != nil {
		return err
	}
	return t.f.Close()
}

// Seed returns VERIF_SEED (default 1).
func Seed() int64 {
	s, err := strconv.ParseInt(os.Getenv("VERIF_SEED"), 10, 64)
	if err != nil {
		return 1
	}
	return s
}

func Rand(salt int64) *rand.Rand {
	return rand.New(rand.NewSource(Seed()*1000003 + salt))
}
