// Package socks5 is a minimal SOCKS5 proxy (no authentication, CONNECT only) for the harness:
// "socks5://" is the only proxy scheme the WARC client accepts.
package socks5

import (
	"encoding/binary"
	"fmt"
	"io"
	"net"
	"sync/atomic"
)

type Server struct {
	ln    net.Listener
	Conns atomic.Int64
}

func Listen() (*Server, error) {
	ln, err := net.Listen("tcp", "127.0.0.1:0")
	if err != nil {
		return nil, err
	}
	s := &Server{ln: ln}
	go func() {
		for {
			c, err := ln.Accept()
			if err != nil {
				return
			}
			go s.handle(c)
		}
	}()
	return s, nil
}

func (s *Server) Addr() string { return s.ln.Addr().String() }
func (s *Server) Close()       { s.ln.Close() }

func (s *Server) handle(c net.Conn) {
	defer c.Close()
	buf := make([]byte, 262)
	if _, err := io.ReadFull(c, buf[:2]); err != nil || buf[0] != 5 {
		return
	}
	if _, err := io.ReadFull(c, buf[:int(buf[1])]); err != nil {
		return
	}
	c.Write([]byte{5, 0})
	if _, err := io.ReadFull(c, buf[:4]); err != nil || buf[1] != 1 {
		return
	}
	var host string
	switch buf[3] {
	case 1:
		io.ReadFull(c, buf[:4])
		host = net.IP(buf[:4]).String()
	case 3:
		io.ReadFull(c, buf[:1])
		n := int(buf[0])
		io.ReadFull(c, buf[:n])
		host = string(buf[:n])
	case 4:
		io.ReadFull(c, buf[:16])
		host = net.IP(buf[:16]).String()
	default:
		return
	}
	io.ReadFull(c, buf[:2])
	port := binary.BigEndian.Uint16(buf[:2])
	up, err := net.Dial("tcp", net.JoinHostPort(host, fmt.Sprint(port)))
	if err != nil {
		c.Write([]byte{5, 5, 0, 1, 0, 0, 0, 0, 0, 0})
		return
	}
	defer up.Close()
	s.Conns.Add(1)
	c.Write([]byte{5, 0, 0, 1, 0, 0, 0, 0, 0, 0})
	done := make(chan struct{}, 2)
	go func() { io.Copy(up, c); done <- struct{}{} }()
	go func() { io.Copy(c, up); done <- struct{}{} }()
	<-done
}
