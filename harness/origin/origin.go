// Package origin is a scriptable origin server for the end-to-end harness. Each "host" is a
// listener on 127.0.0.N:port (a dotted, non-127.0.0.1 host, so Zeno's normaliser accepts it).
// Routes map a request URI to a list of responses; the k-th request for the URI gets the k-th
// response (the last one repeats). Every request and every completed response is reported.
package origin

import (
	"bytes"
	"compress/gzip"
	"crypto/sha1"
	"encoding/hex"
	"fmt"
	"net"
	"net/http"
	"strconv"
	"strings"
	"sync"
	"time"
)

// Resp describes one scripted response.
type Resp struct {
	CutAfter int               // > 0: the connection is cut after this many body bytes although the full length was announced
	Status   int               `json:"status"`
	Headers  map[string]string `json:"headers,omitempty"`
	Body     string            `json:"body,omitempty"`
	BodyGen  *BodyGen          `json:"bodygen,omitempty"`
	Location string            `json:"location,omitempty"`
	DelayMS  int               `json:"delay_ms,omitempty"`
	Gate     string            `json:"gate,omitempty"`    // wait until the gate is opened before answering
	Chunked  bool              `json:"chunked,omitempty"` // no Content-Length
	Gzip     bool              `json:"gzip,omitempty"`    // Content-Encoding: gzip
	Drop     bool              `json:"drop,omitempty"`    // close the connection without an answer
}

// BodyGen describes a generated body: deterministic pseudo-random bytes of a kind and size.
type BodyGen struct {
	Kind string `json:"kind"` // "text" | "html" | "binary" | "repeat"
	Size int    `json:"size"`
	Seed int    `json:"seed"`
}

func (g *BodyGen) Bytes() []byte {
	b := make([]byte, g.Size)
	x := uint32(g.Seed*2654435761 + 12345)
	next := func() uint32 { x ^= x << 13; x ^= x >> 17; x ^= x << 5; return x }
	switch g.Kind {
	case "binary":
		for i := range b {
			b[i] = byte(next())
		}
		if len(b) >= 4 { // PNG-like magic so that it is not sniffed as text
			copy(b, []byte{0x89, 'P', 'N', 'G'})
		}
	case "repeat":
		for i := range b {
			b[i] = "0123456789abcdef"[i%16]
		}
	default:
		const al = "abcdefghijklmnopqrstuvwxyz     \n"
		for i := range b {
			b[i] = al[next()%uint32(len(al))]
		}
		if g.Kind == "html" && len(b) >= 32 {
			copy(b, []byte("<!DOCTYPE html><html><body><p>  "))
		}
	}
	return b
}

type Event func(ev map[string]any)

type Server struct {
	mu       sync.Mutex
	routes   map[string][]Resp // key: host + uri
	counts   map[string]int
	gates    map[string]chan struct{}
	emit     Event
	lns      []net.Listener
	srvs     []*http.Server
	Hosts    []string // "127.0.0.2:port" per host index
	DelayAll int      // ms added to every response (slow site)
	Default  Resp
	// Dynamic, when set, answers URIs that have no static route (host index, uri, request number).
	Dynamic func(h int, uri string, n int) *Resp
}

func New(nhosts int, emit Event) (*Server, error) {
	addrs := make([]string, nhosts)
	for i := range addrs {
		addrs[i] = fmt.Sprintf("127.0.0.%d:0", 2+i%7)
	}
	return NewAt(addrs, emit)
}

// NewAt listens on the given addresses (a crawl that is restarted must find its hosts again).
func NewAt(addrs []string, emit Event) (*Server, error) {
	s := &Server{routes: map[string][]Resp{}, counts: map[string]int{}, gates: map[string]chan struct{}{}, emit: emit,
		Default: Resp{Status: 404, Body: "not found", Headers: map[string]string{"Content-Type": "text/plain"}}}
	for _, addr := range addrs {
		ln, err := net.Listen("tcp", addr)
		if err != nil {
			return nil, err
		}
		host := ln.Addr().String()
		s.lns = append(s.lns, ln)
		s.Hosts = append(s.Hosts, host)
		srv := &http.Server{Handler: http.HandlerFunc(func(w http.ResponseWriter, r *http.Request) { s.handle(host, w, r) })}
		s.srvs = append(s.srvs, srv)
		go srv.Serve(ln)
	}
	return s, nil
}

func (s *Server) Close() {
	for _, srv := range s.srvs {
		srv.Close()
	}
}

// Route installs the responses for host index h and uri (path?query).
func (s *Server) Route(h int, uri string, rs ...Resp) {
	s.mu.Lock()
	defer s.mu.Unlock()
	s.routes[s.Hosts[h]+uri] = rs
}

func (s *Server) URL(h int, uri string) string { return "http://" + s.Hosts[h] + uri }

// Count returns how many requests were received for host h and uri.
func (s *Server) Count(h int, uri string) int {
	s.mu.Lock()
	defer s.mu.Unlock()
	return s.counts[s.Hosts[h]+uri]
}

func (s *Server) gate(name string) chan struct{} {
	s.mu.Lock()
	defer s.mu.Unlock()
	g, ok := s.gates[name]
	if !ok {
		g = make(chan struct{})
		s.gates[name] = g
	}
	return g
}

// Open releases every response waiting on the gate (now and later).
func (s *Server) Open(name string) {
	g := s.gate(name)
	s.mu.Lock()
	defer s.mu.Unlock()
	select {
	case <-g:
	default:
		close(g)
	}
}

func (s *Server) handle(host string, w http.ResponseWriter, r *http.Request) {
	uri := r.URL.RequestURI()
	key := host + uri
	s.mu.Lock()
	s.counts[key]++
	n := s.counts[key]
	rs, ok := s.routes[key]
	s.mu.Unlock()
	resp := s.Default
	if ok && len(rs) > 0 {
		if n <= len(rs) {
			resp = rs[n-1]
		} else {
			resp = rs[len(rs)-1]
		}
	} else if s.Dynamic != nil {
		hi := 0
		for i, hn := range s.Hosts {
			if hn == host {
				hi = i
			}
		}
		if d := s.Dynamic(hi, uri, n); d != nil {
			resp = *d
			ok = true
		}
	}
	s.emit(map[string]any{"ev": "req", "host": host, "uri": uri, "url": "http://" + host + uri, "n": n, "routed": ok, "ua": r.UserAgent()})
	if resp.Gate != "" {
		select {
		case <-s.gate(resp.Gate):
		case <-time.After(60 * time.Second):
		case <-r.Context().Done():
			return
		}
	}
	if s.DelayAll > 0 {
		time.Sleep(time.Duration(s.DelayAll) * time.Millisecond)
	}
	if resp.DelayMS > 0 {
		time.Sleep(time.Duration(resp.DelayMS) * time.Millisecond)
	}
	if resp.Drop {
		if hj, ok := w.(http.Hijacker); ok {
			c, _, _ := hj.Hijack()
			c.Close()
		}
		return
	}
	body := []byte(resp.Body)
	if resp.BodyGen != nil {
		body = resp.BodyGen.Bytes()
	}
	sum := sha1.Sum(body)
	wire := body
	for k, v := range resp.Headers {
		w.Header().Set(k, v)
	}
	if resp.Location != "" {
		w.Header().Set("Location", resp.Location)
	}
	if resp.Gzip {
		var buf bytes.Buffer
		zw := gzip.NewWriter(&buf)
		zw.Write(body)
		zw.Close()
		wire = buf.Bytes()
		w.Header().Set("Content-Encoding", "gzip")
	}
	if !resp.Chunked {
		w.Header().Set("Content-Length", strconv.Itoa(len(wire)))
	}
	status := resp.Status
	if status == 0 {
		status = 200
	}
	// logged before the first byte leaves: whatever the client saw of this response, the log already has it
	s.emit(map[string]any{"ev": "resp", "host": host, "uri": uri, "url": "http://" + host + uri, "n": n, "status": status,
		"sha1": hex.EncodeToString(sum[:]), "len": len(body), "ctype": resp.Headers["Content-Type"], "gzip": resp.Gzip, "chunked": resp.Chunked,
		"cf": strings.EqualFold(resp.Headers["cf-mitigated"], "challenge")})
	w.WriteHeader(status)
	if resp.Chunked {
		// write in pieces with flushes so that the framing really is chunked
		f, _ := w.(http.Flusher)
		for off := 0; off < len(wire); off += 1500 {
			end := off + 1500
			if end > len(wire) {
				end = len(wire)
			}
			w.Write(wire[off:end])
			if f != nil {
				f.Flush()
			}
		}
	} else if resp.CutAfter > 0 && resp.CutAfter < len(wire) {
		w.Write(wire[:resp.CutAfter]) // net/http closes the connection: fewer bytes than Content-Length
	} else {
		w.Write(wire)
	}
}
