package main

import (
	"encoding/json"
	"fmt"
	"strconv"
	"strings"
	"time"

	"github.com/internetarchive/Zeno/internal/pkg/config"
	"github.com/internetarchive/Zeno/verifharness/origin"
	"github.com/internetarchive/Zeno/verifharness/vh"
)

// c19 (documents): JSON, XML / RSS / sitemap and M3U8 documents with URLs planted by construction are
// crawled by the real pipeline. URLs whose last path segment has a file extension must be fetched as
// assets, the others queued as outlinks (hop limit permitting).
//
// usage: zeno-verif c19 <scratch-dir> <trace> <n-docs>
func init() { scenarios["c19"] = c19 }

func c19(args []string) error {
	if len(args) != 3 {
		return fmt.Errorf("usage: c19 <dir> <trace> <n>")
	}
	n, _ := strconv.Atoi(args[2])
	run, err := NewRun(args[0], args[1], 2, func(c *config.Config) {
		c.WorkersCount, c.MaxConcurrentAssets = 3, 4
		c.MaxHops = 1
	})
	if err != nil {
		return err
	}
	run.tr.Emit(map[string]any{"ev": "c07.cfg", "variant": "docs", "disabled": []string{}, "capture_alternate": false, "disable_assets": false, "max_hops": 1})
	r := vh.Rand(1900)
	run.org.Dynamic = func(h int, uri string, cnt int) *origin.Resp {
		if strings.Contains(uri, "/t/") {
			if strings.Contains(uri, ".") {
				p := okImage(len(uri))
				return &p
			}
			return &origin.Resp{Status: 200, Headers: htmlCT, Body: "<html><body>leaf</body></html>"}
		}
		return nil
	}
	var seeds []Seed
	var ids []string
	uid := 0
	for k := 0; k < n; k++ {
		h := k % 2
		host := run.org.Hosts[h]
		var pl []planted
		plant := func(tag, form string, asset bool) string {
			uid++
			u := fmt.Sprintf("http://%s/c19/t/d%d/n%d", host, k, uid)
			role := "outlink"
			if asset {
				u += []string{".png", ".mp4", ".css", ".tar.gz", ".JPG"}[r.Intn(5)]
				role = "asset"
			}
			if r.Intn(4) == 0 {
				u += "?x=" + strconv.Itoa(uid)
			}
			pl = append(pl, planted{Tag: tag, Attr: "value", Form: form, Role: role, Target: u, Text: u})
			return u
		}
		var uri, ctype, body string
		switch kind := k % 6; kind {
		case 0, 1: // JSON: values at any depth, arrays, JSON embedded in a string
			var build func(depth int) any
			build = func(depth int) any {
				switch c := r.Intn(6); {
				case depth >= 5 || c == 0:
					return plant("json", fmt.Sprintf("depth%d", depth), r.Intn(2) == 0)
				case c == 1:
					return []any{build(depth + 1), "plain text", 42, build(depth + 1)}
				case c == 2:
					in := map[string]any{"inner": plant("json", fmt.Sprintf("embedded%d", depth), r.Intn(2) == 0), "n": 1}
					if r.Intn(3) == 0 { // a large stringified document (several KB)
						var list []any
						for j := 0; j < 20+r.Intn(40); j++ {
							list = append(list, map[string]any{"u": plant("json", fmt.Sprintf("embedded-big%d", depth), r.Intn(2) == 0), "note": strings.Repeat("lorem ipsum ", 4)})
						}
						in["items"] = list
					}
					inner, _ := json.Marshal(in)
					if r.Intn(2) == 0 { // the serialisers that escape the solidus (PHP's default): "https:\/\/host\/path"
						return strings.ReplaceAll(string(inner), "/", `\/`)
					}
					return string(inner)
				default:
					return map[string]any{"a": build(depth + 1), "title": "not a url", "b": build(depth + 1), "n": nil, "ok": true}
				}
			}
			doc := map[string]any{"data": build(1), "meta": map[string]any{"self": plant("json", "top", false)}}
			var b []byte
			if kind == 0 {
				b, _ = json.Marshal(doc)
			} else {
				b, _ = json.MarshalIndent(doc, "", "  ")
			}
			uri, ctype, body = fmt.Sprintf("/c19/doc%d.json", k), "application/json", string(b)
		case 2: // XML: attributes, text nodes, CDATA, namespaces
			var b strings.Builder
			b.WriteString("<?xml version=\"1.0\" encoding=\"UTF-8\"?>\n<catalog xmlns:m=\"http://ns.example/media\">\n")
			for i := 0; i < 2+r.Intn(4); i++ {
				b.WriteString("  <item id=\"" + strconv.Itoa(i) + "\" href=\"" + plant("xml", "attr", r.Intn(2) == 0) + "\">\n")
				b.WriteString("    <m:content url='" + plant("xml", "nsattr", true) + "'/>\n")
				b.WriteString("    <link>" + plant("xml", "text", r.Intn(2) == 0) + "</link>\n")
				b.WriteString("    <desc><![CDATA[" + plant("xml", "cdata", r.Intn(2) == 0) + "]]></desc>\n  </item>\n")
			}
			b.WriteString("</catalog>\n")
			uri, ctype, body = fmt.Sprintf("/c19/doc%d.xml", k), "application/xml", b.String()
		case 3: // RSS
			var b strings.Builder
			b.WriteString("<?xml version=\"1.0\"?>\n<rss version=\"2.0\"><channel><title>feed</title>\n")
			for i := 0; i < 2+r.Intn(3); i++ {
				b.WriteString("<item><title>t</title><link>" + plant("rss", "link", false) + "</link><enclosure url=\"" + plant("rss", "enclosure", true) + "\" type=\"audio/mpeg\"/></item>\n")
			}
			b.WriteString("</channel></rss>\n")
			uri, ctype, body = fmt.Sprintf("/c19/feed%d.xml", k), "application/rss+xml", b.String()
		case 4: // sitemap
			var b strings.Builder
			b.WriteString("<?xml version=\"1.0\" encoding=\"UTF-8\"?>\n<urlset xmlns=\"http://www.sitemaps.org/schemas/sitemap/0.9\">\n")
			for i := 0; i < 2+r.Intn(4); i++ {
				b.WriteString("  <url><loc>" + plant("sitemap", "loc", false) + "</loc><lastmod>2024-01-01</lastmod></url>\n")
			}
			b.WriteString("</urlset>\n")
			uri, ctype, body = fmt.Sprintf("/c19/sitemap%d.xml", k), "application/xml", b.String()
		case 5: // M3U8: media or master playlist
			var b strings.Builder
			b.WriteString("#EXTM3U\n#EXT-X-VERSION:3\n")
			if r.Intn(2) == 0 {
				b.WriteString("#EXT-X-TARGETDURATION:10\n")
				for i := 0; i < 2+r.Intn(3); i++ {
					b.WriteString("#EXTINF:9.0,\n" + plant("m3u8", "segment", true) + "\n")
				}
				b.WriteString("#EXT-X-ENDLIST\n")
			} else {
				// several renditions per group, and more than one group
				for gi, grp := range []string{"aud", "aud-hi"}[:1+r.Intn(2)] {
					for li, lang := range []string{"en", "fr", "de"}[:1+r.Intn(3)] {
						b.WriteString("#EXT-X-MEDIA:TYPE=AUDIO,GROUP-ID=\"" + grp + "\",NAME=\"" + lang + "\",DEFAULT=" + map[bool]string{true: "YES", false: "NO"}[li == 0] + ",URI=\"" + plant("m3u8", fmt.Sprintf("alternative-g%d-r%d", gi, li), true) + "\"\n")
					}
				}
				for i := 0; i < 1+r.Intn(3); i++ {
					b.WriteString("#EXT-X-STREAM-INF:BANDWIDTH=" + strconv.Itoa(100000*(i+1)) + ",AUDIO=\"aud\"\n" + plant("m3u8", "variant", true) + "\n")
				}
			}
			// both registered media types, in the spellings servers use (media types are case-insensitive)
			mts := []string{"application/vnd.apple.mpegurl", "application/x-mpegURL", "application/x-mpegurl", "Application/X-MPEGURL; charset=utf-8", "application/vnd.apple.mpegURL"}
			uri, ctype, body = fmt.Sprintf("/c19/list%d.m3u8", k), mts[(k/6)%len(mts)], b.String()
		}
		run.org.Route(h, uri, origin.Resp{Status: 200, Headers: map[string]string{"Content-Type": ctype}, Body: body})
		id := fmt.Sprintf("seed-doc-%03d", k)
		u := run.org.URL(h, uri)
		seeds = append(seeds, Seed{ID: id, Value: u})
		ids = append(ids, id)
		run.tr.Emit(map[string]any{"ev": "doc", "id": id, "page": u, "planted": pl, "ctype": ctype})
	}
	if err := run.Preload(seeds); err != nil {
		return err
	}
	run.Start()
	all := run.WaitFinished(ids, 180*time.Second, 20*time.Second)
	all = run.WaitDrained(300*time.Second) && all // the outlinks are queued and crawled as well
	run.Quiesce(300*time.Millisecond, 5*time.Second)
	run.tr.Emit(map[string]any{"ev": "quiescent", "all_finished": all, "table": append([]string{}, run.StateTable()...)})
	run.Stop(60 * time.Second)
	run.tr.Emit(map[string]any{"ev": "run.end"})
	return run.tr.Close()
}
