package main

import (
	"bufio"
	"encoding/json"
	"fmt"
	"os"
	"strings"
	"time"

	"github.com/internetarchive/Zeno/internal/pkg/config"
	"github.com/internetarchive/Zeno/verifharness/origin"
)

// c10 (containment): hostile documents are served by the origin next to healthy pages; the crawler
// must survive and finish every seed - a malformed document costs at most its own URL.
//
// usage: zeno-verif c10 <scratch-dir> <trace> <inputs.ndjson>     (lines: {"type","ctype","server","body"})
func init() { scenarios["c10"] = c10e2e }

func c10e2e(args []string) error {
	if len(args) != 3 {
		return fmt.Errorf("usage: c10 <dir> <trace> <inputs>")
	}
	f, err := os.Open(args[2])
	if err != nil {
		return err
	}
	defer f.Close()
	run, err := NewRun(args[0], args[1], 2, func(c *config.Config) {
		c.WorkersCount, c.MaxConcurrentAssets = 3, 3
		c.MaxHops = 1
		c.MaxRetry = 0
	})
	if err != nil {
		return err
	}
	var seeds []Seed
	var ids []string
	sc := bufio.NewScanner(f)
	sc.Buffer(make([]byte, 1<<20), 1<<26)
	k := 0
	for sc.Scan() {
		var in struct{ Type, Ctype, Server, Body, Header string }
		if err := json.Unmarshal(sc.Bytes(), &in); err != nil {
			return err
		}
		k++
		h := k % 2
		ext := map[string]string{"html": "html", "html-script": "html", "html-lists": "html", "json": "json", "xml": "xml", "sitemap": "xml", "s3": "xml", "m3u8-master": "m3u8", "m3u8-media": "m3u8", "pdf": "pdf", "text": "txt"}[in.Type]
		uri := fmt.Sprintf("/c10/h%d.%s", k, ext)
		if in.Type == "s3" {
			uri += "?list-type=2&delimiter=/"
		}
		hdr := map[string]string{}
		if in.Ctype != "" {
			hdr["Content-Type"] = in.Ctype
		}
		if in.Server != "" {
			hdr["Server"] = in.Server
		}
		resp := origin.Resp{Status: 200, Headers: hdr, Body: in.Body}
		if in.Header != "" {
			resp.Headers = map[string]string{"Content-Type": "text/html"}
			if !strings.ContainsAny(in.Body, "\r\n\x00") { // net/http refuses to send such header values
				resp.Headers[in.Header] = in.Body
			}
			if in.Header == "Location" {
				resp.Status = 302
			}
			resp.Body = "<html><body>x</body></html>"
		}
		run.org.Route(h, uri, resp)
		// the hostile document as a seed of its own ...
		id := fmt.Sprintf("seed-h%04d", k)
		seeds = append(seeds, Seed{ID: id, Value: run.org.URL(h, uri)})
		ids = append(ids, id)
		// ... and as an asset of a healthy page, next to a healthy sibling
		if k%3 == 0 {
			page := fmt.Sprintf("/c10/p%d.html", k)
			run.org.Route(h, fmt.Sprintf("/c10/ok%d.png", k), okImage(k))
			run.org.Route(h, page, htmlPage("p", []string{uri, fmt.Sprintf("/c10/ok%d.png", k)}, nil))
			pid := fmt.Sprintf("seed-p%04d", k)
			seeds = append(seeds, Seed{ID: pid, Value: run.org.URL(h, page)})
			ids = append(ids, pid)
		}
	}
	if err := run.Preload(seeds); err != nil {
		return err
	}
	run.Start()
	all := run.WaitFinished(ids, 300*time.Second, 30*time.Second)
	run.Quiesce(300*time.Millisecond, 5*time.Second)
	run.tr.Emit(map[string]any{"ev": "quiescent", "all_finished": all, "table": append([]string{}, run.StateTable()...)})
	run.Stop(60 * time.Second)
	run.tr.Emit(map[string]any{"ev": "run.end"})
	return run.tr.Close()
}
