package main

import (
	"fmt"
	"math/rand"
	"strings"
	"time"

	"github.com/internetarchive/Zeno/internal/pkg/config"
	"github.com/internetarchive/Zeno/verifharness/origin"
	"github.com/internetarchive/Zeno/verifharness/vh"
)

// c01: many seeds with randomly shaped little sites go through the real pipeline at once.
// The shapes cover what the statement lists: shared / duplicate / invalid / excluded assets,
// redirect chains and loops, 4xx / 5xx, retry-then-ok, retry-then-fail, assets of assets.
//
// usage: zeno-verif c01 <scratch-dir> <trace> <n-seeds> <workers> <max-concurrent-assets> [slow-source-ms]
func init() { scenarios["c01"] = c01 }

// c01expect: for the site shapes whose outcome is fixed by construction, the URLs that have to be requested before
// the seed may be reported finished (seed URL -> URLs)
var c01expect = map[string][]string{}

var htmlCT = map[string]string{"Content-Type": "text/html; charset=utf-8"}
var pngCT = map[string]string{"Content-Type": "image/png"}

func okImage(seed int) origin.Resp {
	return origin.Resp{Status: 200, Headers: pngCT, BodyGen: &origin.BodyGen{Kind: "binary", Size: 64 + seed%200, Seed: seed}}
}

func htmlPage(title string, assets []string, links []string) origin.Resp {
	var b strings.Builder
	b.WriteString("<!DOCTYPE html><html><head><title>" + title + "</title></head><body>\n")
	for i, a := range assets {
		switch i % 3 {
		case 0:
			b.WriteString(`<img src="` + a + `">` + "\n")
		case 1:
			b.WriteString(`<script src='` + a + `'></script>` + "\n")
		default:
			b.WriteString(`<link rel="stylesheet" href="` + a + `">` + "\n")
		}
	}
	for _, l := range links {
		b.WriteString(`<a href="` + l + `">link</a>` + "\n")
	}
	b.WriteString("</body></html>\n")
	return origin.Resp{Status: 200, Headers: htmlCT, Body: b.String()}
}

// buildSite installs one seed's site under /s<k>/ on host h and returns the seed URL (text as queued).
func buildSite(r *rand.Rand, org *origin.Server, k int, shared []string) (seedURL string, kind string) {
	h := k % len(org.Hosts)
	p := fmt.Sprintf("/s%d", k)
	abs := func(uri string) string { return org.URL(h, uri) }
	page := p + "/page.html"
	// the page's assets
	var assets []string
	nassets := r.Intn(6)
	for i := 0; i < nassets; i++ {
		a := fmt.Sprintf("%s/a%d.png", p, i)
		switch r.Intn(20) {
		case 15: // redirect to a URL the page also embeds directly (the target duplicates a node of the tree and is removed)
			sib := fmt.Sprintf("%s/sib%d.png", p, i)
			org.Route(h, sib, okImage(k*100+i))
			org.Route(h, a, origin.Resp{Status: 301, Location: sib})
			if r.Intn(2) == 0 {
				assets = append(assets, sib, a)
			} else {
				assets = append(assets, a, sib)
			}
		case 16: // redirect whose Location is not a URL the crawler accepts
			org.Route(h, a, origin.Resp{Status: 302, Location: []string{"http://[::bad/x.png", "http://nodot/x.png", "ftp://files.example/x.png"}[r.Intn(3)]})
			assets = append(assets, a)
		case 17: // redirect to an excluded URL
			org.Route(h, a, origin.Resp{Status: 301, Location: "http://web.archive.org/web/x.png"})
			assets = append(assets, a)
		case 18: // redirect to itself, with and without a fragment
			org.Route(h, a, origin.Resp{Status: 302, Location: []string{a, a + "#again", abs(a)}[r.Intn(3)]})
			assets = append(assets, a)
		case 19: // redirect to the page that embeds it
			org.Route(h, a, origin.Resp{Status: 302, Location: page})
			assets = append(assets, a)
		case 14: // a host that is down: the connection is refused, nothing is ever sent or captured
			assets = append(assets, fmt.Sprintf("http://127.0.0.9:1%s/down%d.png", p, i))
		case 13: // the body is cut short: fewer bytes than announced
			img := okImage(k*100 + i)
			img.CutAfter = 40
			org.Route(h, a, img)
			assets = append(assets, a)
		case 0: // 404
			org.Route(h, a, origin.Resp{Status: 404, Body: "gone"})
			assets = append(assets, a)
		case 1: // 500 then ok
			org.Route(h, a, origin.Resp{Status: 500, Body: "oops"}, okImage(k*100+i))
			assets = append(assets, a)
		case 2: // 500 for good
			org.Route(h, a, origin.Resp{Status: 503, Body: "down"})
			assets = append(assets, a)
		case 3: // redirect to another image
			t := fmt.Sprintf("%s/t%d.png", p, i)
			org.Route(h, t, okImage(k*100+i))
			org.Route(h, a, origin.Resp{Status: 302, Location: t})
			assets = append(assets, a)
		case 4: // redirect to a 404
			org.Route(h, a, origin.Resp{Status: 301, Location: p + "/missing.png"})
			assets = append(assets, a)
		case 5: // duplicate reference
			org.Route(h, a, okImage(k*100+i))
			assets = append(assets, a, abs(a), a+"#frag")
		case 6: // invalid URL text
			assets = append(assets, "http://[::bad/x.png", "ht!tp://nope/x.png")
		case 7: // out of scope
			assets = append(assets, "http://web.archive.org/web/x.png", "ftp://files.example/x.png", "//localhost/x.png")
		case 8: // the page itself
			assets = append(assets, page, abs(page))
		case 9: // shared with other seeds
			if len(shared) > 0 {
				assets = append(assets, shared[r.Intn(len(shared))])
			}
		case 10: // playlist with segments (assets of assets)
			pl := fmt.Sprintf("%s/v%d.m3u8", p, i)
			var segs []string
			body := "#EXTM3U\n#EXT-X-VERSION:3\n#EXT-X-TARGETDURATION:10\n"
			for s := 0; s < 1+r.Intn(3); s++ {
				seg := fmt.Sprintf("seg%d_%d.ts", i, s)
				segs = append(segs, seg)
				body += "#EXTINF:9.0,\n" + seg + "\n"
				if r.Intn(4) == 0 {
					org.Route(h, p+"/"+seg, origin.Resp{Status: 404, Body: "no"})
				} else {
					org.Route(h, p+"/"+seg, origin.Resp{Status: 200, Headers: map[string]string{"Content-Type": "video/mp2t"}, BodyGen: &origin.BodyGen{Kind: "binary", Size: 300, Seed: k*1000 + s}})
				}
			}
			body += "#EXT-X-ENDLIST\n"
			org.Route(h, pl, origin.Resp{Status: 200, Headers: map[string]string{"Content-Type": "application/vnd.apple.mpegurl"}, Body: body})
			assets = append(assets, pl)
		case 11: // connection dropped
			org.Route(h, a, origin.Resp{Drop: true})
			assets = append(assets, a)
		case 12: // empty-path false positive
			assets = append(assets, "http://"+org.Hosts[h]+"/", "http://"+org.Hosts[h])
		default:
			org.Route(h, a, okImage(k*100+i))
			assets = append(assets, a)
		}
	}
	org.Route(h, page, htmlPage(fmt.Sprintf("seed %d", k), assets, nil))
	if k >= 7 && k < 7+len(org.Hosts) {
		// the seed redirects to the root of its host (one such seed per host: the root is the same URL for all of them),
		// written as "/" or as the bare origin
		org.Route(h, "/", htmlPage("root", []string{"/root-logo.png"}, nil))
		org.Route(h, "/root-logo.png", okImage(k))
		loc := "/"
		if k%2 == 0 {
			loc = "http://" + org.Hosts[h]
		}
		org.Route(h, p+"/toroot", origin.Resp{Status: 302, Location: loc})
		c01expect[abs(p+"/toroot")] = []string{abs(p + "/toroot"), abs("/"), abs("/root-logo.png")}
		return abs(p + "/toroot"), "redirect-root"
	}
	if k%9 == 4 {
		// a duplicate that must lose against a node that already led somewhere: the page references a manifest and an
		// icon; the icon answers with a redirect; the manifest (whose URLs are extracted) lists the icon again
		mp := p + "/m"
		icon, icon2 := mp+"/icon.png", mp+"/icon-v2.png"
		org.Route(h, icon, origin.Resp{Status: 301, Location: icon2})
		org.Route(h, icon2, okImage(k))
		org.Route(h, mp+"/manifest.json", origin.Resp{Status: 200, Headers: map[string]string{"Content-Type": "application/json"},
			Body: `{"name":"x","icons":[{"src":"` + abs(icon) + `","sizes":"64x64"}]}`})
		org.Route(h, mp+"/page.html", htmlPage("manifest", []string{mp + "/manifest.json", icon}, nil))
		c01expect[abs(mp+"/page.html")] = []string{abs(mp + "/page.html"), abs(mp + "/manifest.json"), abs(icon), abs(icon2)}
		return abs(mp + "/page.html"), "manifest-redirect"
	}
	switch r.Intn(12) {
	case 0: // redirect chain to the page
		n := 1 + r.Intn(3)
		first := fmt.Sprintf("%s/r0", p)
		for i := 0; i < n; i++ {
			next := fmt.Sprintf("%s/r%d", p, i+1)
			if i == n-1 {
				next = page
			}
			org.Route(h, fmt.Sprintf("%s/r%d", p, i), origin.Resp{Status: []int{301, 302, 307, 308}[r.Intn(4)], Location: next})
		}
		return abs(first), "redirect-chain"
	case 1: // redirect loop
		org.Route(h, p+"/loopa", origin.Resp{Status: 302, Location: p + "/loopb"})
		org.Route(h, p+"/loopb", origin.Resp{Status: 302, Location: p + "/loopa"})
		return abs(p + "/loopa"), "redirect-loop"
	case 2:
		org.Route(h, p+"/gone", origin.Resp{Status: 404, Body: "nothing here"})
		return abs(p + "/gone"), "404"
	case 3:
		org.Route(h, p+"/down", origin.Resp{Status: 500, Body: "down"})
		return abs(p + "/down"), "500"
	case 4:
		org.Route(h, p+"/drop", origin.Resp{Drop: true})
		return abs(p + "/drop"), "drop"
	case 9: // the seed's own host is down (connection refused)
		return "http://127.0.0.9:1" + p + "/page.html", "refused"
	case 5:
		return "http://web.archive.org/web/2020/" + p, "excluded"
	case 6:
		return "http://nodot/" + p, "invalid-host"
	case 7:
		return "not a url at all " + p, "unparsable"
	case 8: // redirect to an out-of-scope URL
		org.Route(h, p+"/away", origin.Resp{Status: 302, Location: "http://localhost/away"})
		return abs(p + "/away"), "redirect-out"
	default:
		return abs(page), "page"
	}
}

func c01(args []string) error {
	if len(args) != 5 && len(args) != 6 {
		return fmt.Errorf("usage: c01 <dir> <trace> <nseeds> <workers> <assets> [slow-source-ms]")
	}
	slow := 0
	if len(args) == 6 {
		fmt.Sscan(args[5], &slow)
	}
	var n, w, ma int
	fmt.Sscan(args[2], &n)
	fmt.Sscan(args[3], &w)
	fmt.Sscan(args[4], &ma)
	run, err := NewRun(args[0], args[1], 3, func(c *config.Config) {
		c.WorkersCount, c.MaxConcurrentAssets = w, ma
		c.MaxRedirect, c.MaxRetry = 3, 1
		c.HTTPTimeout = 5
	})
	if err != nil {
		return err
	}
	run.perturb = true
	if slow > 0 {
		// a source that is slow to take finish notifications: its channel fills up and the finisher has to wait
		run.extra = func(point string, a ...any) {
			if point == "lq.finish.recv" {
				time.Sleep(time.Duration(slow) * time.Millisecond)
			}
		}
	}
	r := vh.Rand(int64(100 + w*10 + ma))
	// a few assets shared between seeds
	var shared []string
	for i := 0; i < 4; i++ {
		uri := fmt.Sprintf("/shared/logo%d.png", i)
		run.org.Route(0, uri, okImage(9000+i))
		shared = append(shared, run.org.URL(0, uri))
	}
	var seeds []Seed
	var ids []string
	for k := 0; k < n; k++ {
		u, kind := buildSite(r, run.org, k, shared)
		id := fmt.Sprintf("seed-%04d", k)
		seeds = append(seeds, Seed{ID: id, Value: u})
		ids = append(ids, id)
		run.tr.Emit(map[string]any{"ev": "site", "id": id, "kind": kind, "u": u})
		if ex, ok := c01expect[u]; ok {
			run.tr.Emit(map[string]any{"ev": "expect", "id": id, "urls": ex})
		}
	}
	if err := run.Preload(seeds); err != nil {
		return err
	}
	run.Start()
	all := run.WaitFinished(ids, 120*time.Second, 15*time.Second)
	run.Quiesce(300*time.Millisecond, 5*time.Second)
	run.tr.Emit(map[string]any{"ev": "quiescent", "all_finished": all, "table": append([]string{}, run.StateTable()...)})
	run.Stop(60 * time.Second)
	run.tr.Emit(map[string]any{"ev": "run.end"})
	return run.tr.Close()
}
