package main

import (
	"encoding/json"
	"fmt"
	"github.com/internetarchive/Zeno/pkg/models"
	"net/http"
	"os"
	"path/filepath"
	"strconv"
	"strings"
	"sync"
	"sync/atomic"
	"syscall"
	"time"

	"github.com/internetarchive/Zeno/internal/pkg/config"
	"github.com/internetarchive/Zeno/verifharness/origin"
	"github.com/internetarchive/Zeno/verifharness/warcread"
)

// c04: a crawl on the local persistent queue is killed (SIGKILL to itself from inside a hook, or at a
// random time) or stopped gracefully at a chosen point, then started again on the same job directory
// (a second process). The origin listens on the same addresses in both runs.
//
// usage: zeno-verif c04 <scratch-dir> <trace> run1 <kill|stop>:<point>:<k> | killtime:<ms> <n-seeds> <workers>
//
//	zeno-verif c04 <scratch-dir> <trace> run2 - <n-seeds> <workers>
func init() { scenarios["c04"] = c04 }

func c04site(org *origin.Server, n int, big bool, bigStatus int, bigAsset bool, needs map[string][]string) []Seed {
	var seeds []Seed
	if bigAsset {
		// a page whose first asset takes the WARC writer a while (incompressible, 8 MiB, and its write is held for 1.5 s in
		// the library's discard hook) next to small ones requested later
		p := "/c04/ba"
		org.Route(0, p+"/big.bin", origin.Resp{Status: 200, Headers: map[string]string{"Content-Type": "application/octet-stream", "X-Verif-Hold": "seed-bigasset"}, BodyGen: &origin.BodyGen{Kind: "binary", Size: 8 << 20, Seed: 5}})
		assets := []string{p + "/big.bin"}
		for j := 0; j < 3; j++ {
			a := fmt.Sprintf("%s/small%d.png", p, j)
			org.Route(0, a, okImage(900+j))
			assets = append(assets, a)
		}
		org.Route(0, p+"/page.html", htmlPage("c04 big asset", assets, nil))
		seeds = append(seeds, Seed{ID: "seed-bigasset", Value: org.URL(0, p+"/page.html")})
		for _, a := range assets {
			needs["seed-bigasset"] = append(needs["seed-bigasset"], org.URL(0, a))
		}
	}
	if big {
		// a body that takes the WARC writer a while to digest, compress and write (incompressible, 64 MiB);
		// with status 503 and --max-retry 0 it is the answer of an attempt that exhausts the retries
		org.Route(0, "/c04/big.bin", origin.Resp{Status: bigStatus, Headers: map[string]string{"Content-Type": "application/octet-stream"}, BodyGen: &origin.BodyGen{Kind: "binary", Size: 64 << 20, Seed: 4}})
		seeds = append(seeds, Seed{ID: "seed-big", Value: org.URL(0, "/c04/big.bin")})
	}
	for k := 0; k < n; k++ {
		h := k % len(org.Hosts)
		p := fmt.Sprintf("/c04/s%d", k)
		var assets []string
		for j := 0; j < k%4; j++ {
			a := fmt.Sprintf("%s/a%d.png", p, j)
			org.Route(h, a, okImage(k*10+j))
			assets = append(assets, a)
			needs[fmt.Sprintf("seed-%04d", k)] = append(needs[fmt.Sprintf("seed-%04d", k)], org.URL(h, a))
		}
		org.Route(h, p+"/page.html", htmlPage("c04", assets, nil))
		seeds = append(seeds, Seed{ID: fmt.Sprintf("seed-%04d", k), Value: org.URL(h, p+"/page.html")})
	}
	return seeds
}

func fileExists(p string) bool { _, err := os.Stat(p); return err == nil }

func c04(args []string) error {
	if len(args) != 6 {
		return fmt.Errorf("usage: c04 <dir> <trace> run1|run2 <mode> <n> <workers>")
	}
	dir, phase, mode := args[0], args[2], args[3]
	n, _ := strconv.Atoi(args[4])
	w, _ := strconv.Atoi(args[5])
	portsFile := filepath.Join(dir, "ports.json")
	var addrs []string
	if phase == "run2" {
		b, err := os.ReadFile(portsFile)
		if err != nil {
			return err
		}
		json.Unmarshal(b, &addrs)
	}
	flaky := strings.HasPrefix(mode, "flaky+")
	flakyFile := filepath.Join(dir, "flaky.flag")
	if _, err := os.Stat(flakyFile); err == nil {
		flaky = true
	}
	run, err := NewRunAt(dir, args[1], 2, addrs, func(c *config.Config) {
		c.WorkersCount, c.MaxConcurrentAssets = w, 2
		if strings.HasPrefix(mode, "bigasset+") || fileExists(filepath.Join(dir, "bigasset.flag")) {
			c.MaxConcurrentAssets = 4 // all assets of the page are requested at once
		}
		c.MaxRetry = 0
		if flaky {
			c.MaxRetry = 1 // the first attempt of the flaky URL is cut, the retry succeeds
		}
	})
	if err != nil {
		return err
	}
	bigFile := filepath.Join(dir, "big.flag")
	big, bigStatus := false, 200
	if strings.HasPrefix(mode, "big+") || strings.HasPrefix(mode, "big503+") {
		big = true
		if strings.HasPrefix(mode, "big503+") {
			bigStatus = 503
		}
		mode = mode[strings.Index(mode, "+")+1:]
	}
	if phase == "run1" && big {
		os.WriteFile(bigFile, []byte(strconv.Itoa(bigStatus)), 0644)
	}
	if b, err := os.ReadFile(bigFile); err == nil {
		big = true
		bigStatus, _ = strconv.Atoi(string(b))
	}
	bigAssetFile := filepath.Join(dir, "bigasset.flag")
	bigAsset := false
	if strings.HasPrefix(mode, "bigasset+") {
		bigAsset = true
		mode = strings.TrimPrefix(mode, "bigasset+")
		os.WriteFile(bigAssetFile, []byte("1"), 0644)
	}
	if _, err := os.Stat(bigAssetFile); err == nil {
		bigAsset = true
	}
	needs := map[string][]string{}
	seeds := c04site(run.org, n, big, bigStatus, bigAsset, needs)
	if flaky {
		// first attempt: the origin holds the answer back until the stop is under way, then cuts the connection
		mode = strings.TrimPrefix(mode, "flaky+")
		if phase == "run1" {
			os.WriteFile(flakyFile, []byte("1"), 0644)
			run.org.Route(0, "/c04/flaky.bin", origin.Resp{Gate: "held", Drop: true}, okImage(77))
		} else {
			run.org.Route(0, "/c04/flaky.bin", okImage(77))
		}
		seeds = append([]Seed{{ID: "seed-flaky", Value: run.org.URL(0, "/c04/flaky.bin")}}, seeds...)
	}
	run.tr.Emit(map[string]any{"ev": "c04.phase", "phase": phase, "mode": mode, "n": n})
	var heldOnce sync.Once
	run.extra = func(point string, a ...any) {
		// library-side discard call (no request attached) of a response marked X-Verif-Hold: its write waits a while
		if point != "arch.discard" {
			return
		}
		if resp, ok := a[0].(*http.Response); ok && resp.Request == nil && resp.Header.Get("X-Verif-Hold") != "" {
			heldOnce.Do(func() {
				run.tr.Emit(map[string]any{"ev": "hold.begin", "seed": resp.Header.Get("X-Verif-Hold")})
				time.Sleep(1500 * time.Millisecond)
				run.tr.Emit(map[string]any{"ev": "hold.end", "seed": resp.Header.Get("X-Verif-Hold")})
			})
		}
	}
	if phase == "run1" { // the page requisites of each seed (all of them answer 200): captures a finished seed must have
		for id, urls := range needs {
			run.tr.Emit(map[string]any{"ev": "site.assets", "id": id, "urls": urls})
		}
	}
	if phase == "run1" {
		b, _ := json.Marshal(run.org.Hosts)
		os.WriteFile(portsFile, b, 0644)
		if err := run.Preload(seeds); err != nil {
			return err
		}
		var count atomic.Int64
		stopCh := make(chan struct{}, 1)
		parts := strings.Split(mode, ":")
		if parts[0] == "kill" || parts[0] == "stop" {
			k, _ := strconv.Atoi(parts[2])
			// after recording: the event of the point at which the process dies is in the trace
			// "<point>@<seed id>": only occurrences of the point that concern that seed count
			only := ""
			if i := strings.Index(parts[1], "@"); i >= 0 {
				parts[1], only = parts[1][:i], parts[1][i+1:]
			}
			run.after = func(p string, a ...any) {
				if p != parts[1] {
					return
				}
				if only != "" {
					it, ok := (any)(nil), false
					if len(a) > 0 {
						it, ok = a[0], true
					}
					if seed, isItem := it.(*models.Item); !ok || !isItem || seed.GetID() != only {
						return
					}
				}
				if count.Add(1) != int64(k) {
					return
				}
				if parts[0] == "kill" {
					run.tr.Emit(map[string]any{"ev": "kill", "at": p, "k": k})
					syscall.Kill(os.Getpid(), syscall.SIGKILL)
					select {}
				}
				select {
				case stopCh <- struct{}{}:
				default:
				}
			}
			run.annotate = func(ev map[string]any) { // origin events count as points too ("req")
				if ev["ev"] == parts[1] {
					run.after(parts[1])
				}
			}
		}
		run.Start()
		switch parts[0] {
		case "killtime":
			ms, _ := strconv.Atoi(parts[1])
			time.Sleep(time.Duration(ms) * time.Millisecond)
			run.tr.Emit(map[string]any{"ev": "kill", "at": "time", "k": ms})
			syscall.Kill(os.Getpid(), syscall.SIGKILL)
			select {}
		case "stop":
			select {
			case <-stopCh:
			case <-time.After(60 * time.Second):
			}
			run.tr.Emit(map[string]any{"ev": "graceful.stop"})
			if flaky {
				go func() { time.Sleep(1500 * time.Millisecond); run.org.Open("held") }()
			}
			run.Stop(60 * time.Second)
			run.tr.Emit(map[string]any{"ev": "run1.end"})
			return run.tr.Close()
		default: // kill: wait to be killed (or finish if the point is never reached)
			time.Sleep(60 * time.Second)
			run.tr.Emit(map[string]any{"ev": "kill", "at": "never reached", "k": 0})
			syscall.Kill(os.Getpid(), syscall.SIGKILL)
			select {}
		}
	}
	// ---- run2: what was left behind, then resume
	rows, rerr := run.Rows()
	if rerr != nil {
		rows, rerr = run.RowsRecover()
	}
	rev := map[string]any{"ev": "rows", "when": "before-run2", "rows": rows}
	if rerr != nil { // a read-only connection cannot replay the journal a killed writer left behind
		rev["err"], rev["rows"] = rerr.Error(), []map[string]any{}
	}
	run.tr.Emit(rev)
	wdir := filepath.Join(run.cfg.JobPath, "warcs")
	ents, _ := os.ReadDir(wdir)
	for _, e := range ents {
		recs, _, trailing, err := warcread.ReadFrom(filepath.Join(wdir, e.Name()), 0)
		caps := []map[string]any{}
		bad := 0
		for _, rc := range recs {
			if !rc.Complete || rc.Err != "" {
				bad++
			}
			if rc.Type == "response" || rc.Type == "revisit" {
				caps = append(caps, map[string]any{"uri": rc.URI, "status": rc.Status})
			}
		}
		ev := map[string]any{"ev": "warc.left", "file": e.Name(), "records": len(recs), "bad": bad, "trailing": trailing, "captures": caps}
		if err != nil {
			ev["err"] = err.Error()
		}
		run.tr.Emit(ev)
		// keep what the first run left apart from what this run writes
		os.Rename(filepath.Join(wdir, e.Name()), filepath.Join(wdir, "run1-"+strings.TrimSuffix(e.Name(), ".open")))
	}
	run.Start()
	drained := run.WaitDrained(45 * time.Second)
	rows, rerr = run.Rows()
	rev = map[string]any{"ev": "rows", "when": "after-run2", "rows": rows, "drained": drained}
	if rerr != nil {
		rev["err"], rev["rows"] = rerr.Error(), []map[string]any{}
	}
	run.tr.Emit(rev)
	run.Stop(60 * time.Second)
	run.tr.Emit(map[string]any{"ev": "run.end"})
	return run.tr.Close()
}
