// zeno-verif runs the real Zeno pipeline (reactor, preprocessor, archiver with the WARC writer,
// postprocessor, finisher, local queue) once per process against the scripted origin server and
// records an ndjson trace. One subcommand per property family builds the scenario.
package main

import (
	"fmt"
	"os"
)

var scenarios = map[string]func(args []string) error{}

func main() {
	if len(os.Args) < 2 {
		fmt.Fprintln(os.Stderr, "usage: zeno-verif <scenario> <scratch-dir> <trace> [args]")
		os.Exit(2)
	}
	f, ok := scenarios[os.Args[1]]
	if !ok {
		fmt.Fprintln(os.Stderr, "unknown scenario", os.Args[1])
		os.Exit(2)
	}
	if err := f(os.Args[2:]); err != nil {
		fmt.Fprintln(os.Stderr, "scenario error:", err)
		os.Exit(2)
	}
}
