package main

import (
	"fmt"
	"regexp"
	"strconv"
	"strings"
	"time"

	"github.com/internetarchive/Zeno/internal/pkg/config"
	"github.com/internetarchive/Zeno/verifharness/origin"
)

// c06: adversarial servers. The origin answers by pattern, without end:
//
//	/chain<k>/c<i>          -> 302 to c<i+1>                      (endless redirect chain)
//	/loop<k>/a, /loop<k>/b  -> 302 to each other
//	/deep<k>/d<j>_x.json    -> JSON document that references d<j+1>_0.json, d<j+1>_1.json and a leaf (endless nesting)
//	/rdeep<k>/d<j>_x.json   -> like deep, but every document is reached through one redirect first
//	/fail<k>/f              -> 500 for ever;  /flaky<k>/f -> 503, 503, 200 ...
//	/self<k>/p.html         -> page whose assets are itself
//	/hub<k>/h<hops>.html    -> page with outlinks (some matching the domains-crawl pattern) and assets
//
// usage: zeno-verif c06 <scratch-dir> <trace> <max-redirect> <max-retry> <max-hops> <domains-crawl 0|1> <n-per-kind>
func init() { scenarios["c06"] = c06 }

func c06(args []string) error {
	if len(args) != 7 {
		return fmt.Errorf("usage: c06 <dir> <trace> <maxredirect> <maxretry> <maxhops> <dc> <n>")
	}
	mr, _ := strconv.Atoi(args[2])
	mt, _ := strconv.Atoi(args[3])
	mh, _ := strconv.Atoi(args[4])
	dc := args[5] == "1"
	n, _ := strconv.Atoi(args[6])
	run, err := NewRun(args[0], args[1], 2, func(c *config.Config) {
		c.WorkersCount, c.MaxConcurrentAssets = 2, 3
		c.MaxRedirect, c.MaxRetry, c.MaxHops = mr, mt, mh
		c.HTTPTimeout = 5
		if dc {
			c.DomainsCrawl = []string{"dcmatch[0-9]*"}
		}
	})
	if err != nil {
		return err
	}
	run.perturb = true
	run.tr.Emit(map[string]any{"ev": "c06.cfg", "max_redirect": mr, "max_retry": mt, "max_hops": mh, "dc": dc})
	reLabel := regexp.MustCompile(`/(chain|deep|rdeep)\d+/(?:go/)?(?:seg_)?[cd](\d+)`)
	run.annotate = func(ev map[string]any) {
		switch ev["ev"] {
		case "req":
			uri := ev["uri"].(string)
			ev["lbl"], ev["idx"] = "other", 0
			if m := reLabel.FindStringSubmatch(uri); m != nil {
				i, _ := strconv.Atoi(m[2])
				ev["lbl"], ev["idx"] = m[1], i
				if m[1] == "rdeep" {
					ev["lbl"] = "deep"
				}
			} else if strings.HasPrefix(uri, "/fail") || strings.HasPrefix(uri, "/flaky") {
				ev["lbl"] = "retry"
			}
		case "outlink":
			ev["dcm"] = strings.Contains(ev["u"].(string), "dcmatch")
		}
	}
	reChain := regexp.MustCompile(`^/chain(\d+)/c(\d+)$`)
	reLoop := regexp.MustCompile(`^/loop(\d+)/(a|b)$`)
	reDeep := regexp.MustCompile(`^/(r?)deep(\d+)/d(\d+)_(\d+)\.json$`)
	reRDeep := regexp.MustCompile(`^/rdeep(\d+)/go/d(\d+)_(\d+)\.json$`)
	jsonCT := map[string]string{"Content-Type": "application/json"}
	run.org.Dynamic = func(h int, uri string, cnt int) *origin.Resp {
		if m := reChain.FindStringSubmatch(uri); m != nil {
			i, _ := strconv.Atoi(m[2])
			return &origin.Resp{Status: 302, Location: fmt.Sprintf("/chain%s/c%d", m[1], i+1)}
		}
		if m := reLoop.FindStringSubmatch(uri); m != nil {
			o := "a"
			if m[2] == "a" {
				o = "b"
			}
			return &origin.Resp{Status: 301, Location: fmt.Sprintf("/loop%s/%s", m[1], o)}
		}
		if m := reRDeep.FindStringSubmatch(uri); m != nil {
			return &origin.Resp{Status: 302, Location: fmt.Sprintf("/rdeep%s/d%s_%s.json", m[1], m[2], m[3])}
		}
		if m := reDeep.FindStringSubmatch(uri); m != nil {
			j, _ := strconv.Atoi(m[3])
			pre := ""
			if m[1] == "r" {
				pre = "go/"
			}
			base := "http://" + run.org.Hosts[h]
			body := "{\"items\": ["
			for x := 0; x < 2; x++ {
				body += fmt.Sprintf("{\"src\": \"%s/%sdeep%s/%sd%d_%d.json\"}, ", base, m[1], m[2], pre, j+1, x)
			}
			body += fmt.Sprintf("{\"src\": \"%s/%sdeep%s/seg_d%d_%s.ts\"}]}", base, m[1], m[2], j+1, m[4])
			return &origin.Resp{Status: 200, Headers: jsonCT, Body: body}
		}
		if strings.Contains(uri, "/seg_d") {
			return &origin.Resp{Status: 200, Headers: map[string]string{"Content-Type": "video/mp2t"}, BodyGen: &origin.BodyGen{Kind: "binary", Size: 200, Seed: len(uri)}}
		}
		if strings.HasPrefix(uri, "/fail") {
			// always failing, with the statuses the crawler retries and the headers such answers carry
			k := 0
			fmt.Sscanf(uri, "/fail%d/", &k)
			resp := &origin.Resp{Status: []int{500, 429, 503, 408, 425, 502}[k%6], Body: "always failing"}
			if k%6 == 1 || k%6 == 2 {
				resp.Headers = map[string]string{"Retry-After": []string{"1", "0", "Wed, 21 Oct 2037 07:28:00 GMT"}[(k/6)%3]}
			}
			return resp
		}
		if strings.HasPrefix(uri, "/flaky") {
			if cnt <= mt {
				return &origin.Resp{Status: 503, Body: "not yet"}
			}
			return &origin.Resp{Status: 200, Headers: pngCT, BodyGen: &origin.BodyGen{Kind: "binary", Size: 100, Seed: cnt}}
		}
		if strings.HasPrefix(uri, "/out/") {
			return &origin.Resp{Status: 200, Headers: htmlCT, Body: "<html><body>leaf " + uri + "</body></html>"}
		}
		return nil
	}
	var seeds []Seed
	var ids []string
	add := func(kind, uri string, hops int) {
		id := fmt.Sprintf("seed-%s-%d", kind, len(seeds))
		u := run.org.URL(len(seeds)%2, uri)
		seeds = append(seeds, Seed{ID: id, Value: u, Hops: hops})
		ids = append(ids, id)
		run.tr.Emit(map[string]any{"ev": "site", "id": id, "kind": kind, "u": u, "hops": hops})
	}
	for k := 0; k < n; k++ {
		add("chain", fmt.Sprintf("/chain%d/c0", k), 0)
		add("loop", fmt.Sprintf("/loop%d/a", k), 0)
		add("fail", fmt.Sprintf("/fail%d/f", k), 0)
		add("flaky", fmt.Sprintf("/flaky%d/f", k), 0)
		// a page with nested playlists, redirected playlists, a failing and a flaky asset, and itself
		h := len(seeds) % 2
		page := fmt.Sprintf("/deep%d/page.html", k)
		nested := []string{fmt.Sprintf("/deep%d/d1_0.json", k), fmt.Sprintf("/rdeep%d/go/d1_0.json", k)}
		if dc {
			// with --domains-crawl the depth limits do not apply (by design): no endlessly nested documents here
			nested = []string{fmt.Sprintf("/flaky%d/other.png", k), fmt.Sprintf("/fail%d/other.png", k)}
		}
		run.org.Route(h, page, htmlPage("deep", []string{
			nested[0], nested[1], fmt.Sprintf("/fail%d/asset.png", k),
			fmt.Sprintf("/flaky%d/asset.png", k), page, fmt.Sprintf("/chain%d/c0", 1000+k)}, nil))
		add("deep", page, 0)
		// hubs at different hop counts: outlinks, some matching the domains-crawl pattern
		for hops := 0; hops <= mh+1; hops++ {
			h := len(seeds) % 2
			hub := fmt.Sprintf("/hub%d/h%d.html", k, hops)
			hp := htmlPage("hub", []string{fmt.Sprintf("/hub%d/img%d.png", k, hops)},
				[]string{fmt.Sprintf("/out/%d/%d/plain.html", k, hops), fmt.Sprintf("/out/%d/%d/dcmatch7.html", k, hops),
					fmt.Sprintf("http://%s/out/%d/%d/abs.html", run.org.Hosts[h], k, hops), "../rel.html"})
			// an outlink named only in a Link response header (pagination)
			hp.Headers = map[string]string{"Content-Type": "text/html; charset=utf-8",
				"Link": fmt.Sprintf("<http://%s/out/%d/%d/linkhdr.html>; rel=\"next\"", run.org.Hosts[h], k, hops)}
			run.org.Route(h, hub, hp)
			run.org.Route(h, fmt.Sprintf("/hub%d/img%d.png", k, hops), okImage(k*10+hops))
			add("hub", hub, hops)
			// the same as a JSON document: its non-file URLs are outlinks found by the asset extractors
			jhub := fmt.Sprintf("/jhub%d/h%d.json", k, hops)
			h = len(seeds) % 2
			run.org.Route(h, jhub, origin.Resp{Status: 200, Headers: map[string]string{"Content-Type": "application/json"},
				Body: fmt.Sprintf(`{"next":"http://%s/jout/%d/%d/plain","items":[{"u":"http://%s/jout/%d/%d/dcmatch7"},{"file":"http://%s/jhub%d/f%d.png"}]}`,
					run.org.Hosts[h], k, hops, run.org.Hosts[h], k, hops, run.org.Hosts[h], k, hops)})
			run.org.Route(h, fmt.Sprintf("/jhub%d/f%d.png", k, hops), okImage(k*10+hops))
			add("jhub", jhub, hops)
			// ... and one in which the extractors find outlinks but not a single asset
			jonly := fmt.Sprintf("/jhub%d/only%d.json", k, hops)
			h = len(seeds) % 2
			run.org.Route(h, jonly, origin.Resp{Status: 200, Headers: map[string]string{"Content-Type": "application/json"},
				Body: fmt.Sprintf(`{"next":"http://%s/jout/%d/%d/onlyplain","more":{"u":"http://%s/jout/%d/%d/onlydcmatch7"}}`,
					run.org.Hosts[h], k, hops, run.org.Hosts[h], k, hops)})
			add("jhub-noasset", jonly, hops)
		}
	}
	if err := run.Preload(seeds); err != nil {
		return err
	}
	run.Start()
	all := run.WaitFinished(ids, 240*time.Second, 20*time.Second)
	all = run.WaitDrained(120*time.Second) && all // the outlinks are queued and crawled as well
	run.Quiesce(300*time.Millisecond, 5*time.Second)
	run.tr.Emit(map[string]any{"ev": "quiescent", "all_finished": all, "table": append([]string{}, run.StateTable()...)})
	run.Stop(60 * time.Second)
	run.tr.Emit(map[string]any{"ev": "run.end"})
	return run.tr.Close()
}
