package main

import (
	"database/sql"
	"fmt"
	"os"
	"path/filepath"
	"runtime"
	"strconv"
	"time"

	"github.com/internetarchive/Zeno/internal/pkg/archiver"
	"github.com/internetarchive/Zeno/internal/pkg/config"
	"github.com/internetarchive/Zeno/internal/pkg/reactor"
	"github.com/internetarchive/Zeno/verifharness/origin"
	"github.com/internetarchive/Zeno/verifharness/vh"
)

// c16: N seeds, then 3N more, in the SAME process; at both quiescent points the footprint is
// measured: open file descriptors, goroutines, files in the WARC temp dir, reactor state table,
// tokens in use, rate limiter buckets. The mix contains large spooled bodies (> 2 MiB, text),
// failures, redirects, pages with assets, and more hosts than the limiter may keep buckets for.
//
// usage: zeno-verif c16 <scratch-dir> <trace> <N>
func init() { scenarios["c16"] = c16 }

func c16(args []string) error {
	if len(args) != 3 {
		return fmt.Errorf("usage: c16 <dir> <trace> <N>")
	}
	n, _ := strconv.Atoi(args[2])
	run, err := NewRun(args[0], args[1], 10, func(c *config.Config) {
		c.WorkersCount, c.MaxConcurrentAssets = 2, 3
		c.DisableRateLimit = false
		c.RateLimitCapacity, c.RateLimitRefillRate = 500, 500
		c.RateLimitCleanupFrequency = time.Hour
		c.MaxRetry = 1
		c.WARCTempDir = "" // GenerateCrawlConfig derives jobs/<job>/temp
	})
	if err != nil {
		return err
	}
	maxBuckets := run.cfg.WorkersCount * run.cfg.MaxConcurrentAssets
	r := vh.Rand(1600)
	serial := 0
	batch := func(count int) []Seed {
		var seeds []Seed
		for i := 0; i < count; i++ {
			serial++
			h := serial % len(run.org.Hosts)
			p := fmt.Sprintf("/c16/s%d", serial)
			var uri string
			switch serial % 8 {
			case 0: // large text body: spooled to a temp file
				uri = p + "/big.txt"
				run.org.Route(h, uri, origin.Resp{Status: 200, Headers: map[string]string{"Content-Type": "text/plain"}, BodyGen: &origin.BodyGen{Kind: "text", Size: 2300000, Seed: serial}})
			case 1: // fails for good after retries
				uri = p + "/down"
				// an error page too large to sit in the transport's read buffer: it has to be drained and closed
				run.org.Route(h, uri, origin.Resp{Status: 503, Headers: map[string]string{"Content-Type": "text/plain"}, BodyGen: &origin.BodyGen{Kind: "text", Size: 300000, Seed: serial}})
			case 2: // redirect chain
				uri = p + "/r0"
				run.org.Route(h, uri, origin.Resp{Status: 302, Location: p + "/r1"})
				run.org.Route(h, p+"/r1", origin.Resp{Status: 301, Location: p + "/end.html"})
				run.org.Route(h, p+"/end.html", htmlPage("end", nil, nil))
			case 3: // dropped connection
				uri = p + "/drop"
				run.org.Route(h, uri, origin.Resp{Drop: true})
			case 4: // fails once, then a large html body
				uri = p + "/flaky.html"
				run.org.Route(h, uri, origin.Resp{Status: 500, Headers: map[string]string{"Content-Type": "text/plain"}, BodyGen: &origin.BodyGen{Kind: "text", Size: 200000, Seed: serial}}, origin.Resp{Status: 200, Headers: htmlCT, BodyGen: &origin.BodyGen{Kind: "html", Size: 2200000, Seed: serial}})
			case 5: // large body whose connection is cut after the part that is spooled to disk
				uri = p + "/cut.txt"
				run.org.Route(h, uri, origin.Resp{Status: 200, Headers: map[string]string{"Content-Type": "text/plain"}, BodyGen: &origin.BodyGen{Kind: "text", Size: 3000000, Seed: serial}, CutAfter: 2400000})
			default: // page with assets on several hosts, one of them failing
				uri = p + "/page.html"
				var assets []string
				for j := 0; j < 3+r.Intn(3); j++ {
					ah := (h + j + 1) % len(run.org.Hosts)
					a := fmt.Sprintf("%s/a%d.png", p, j)
					if j == 1 {
						run.org.Route(ah, a, origin.Resp{Status: 500, Body: "no"})
					} else {
						run.org.Route(ah, a, okImage(serial*10+j))
					}
					assets = append(assets, run.org.URL(ah, a))
				}
				run.org.Route(h, uri, htmlPage("c16", assets, nil))
			}
			seeds = append(seeds, Seed{ID: fmt.Sprintf("seed-%05d", serial), Value: run.org.URL(h, uri)})
		}
		return seeds
	}
	insert := func(seeds []Seed) error {
		db, err := sql.Open("sqlite3", "file:"+filepath.Join(run.cfg.JobPath, "lq.db")+"?_pragma=busy_timeout(20000)")
		if err != nil {
			return err
		}
		defer db.Close()
		for _, s := range seeds {
			for try := 0; ; try++ {
				_, err := db.Exec("INSERT INTO urls (id, value, via, hops) VALUES (?, ?, ?, ?)", s.ID, s.Value, "", 0)
				if err == nil {
					break
				}
				if try > 50 {
					return err
				}
				time.Sleep(50 * time.Millisecond)
			}
			run.tr.Emit(map[string]any{"ev": "queued", "id": s.ID, "u": s.Value, "hops": 0})
		}
		return nil
	}
	footprint := func(label string, seedsDone int) {
		// settle: wait until descriptors and goroutines stop changing
		var fds, gor int
		stable := 0
		for i := 0; i < 400 && stable < 10; i++ {
			time.Sleep(100 * time.Millisecond)
			ents, _ := os.ReadDir("/proc/self/fd")
			f, g := len(ents), runtime.NumGoroutine()
			if f == fds && g == gor {
				stable++
			} else {
				stable = 0
			}
			fds, gor = f, g
		}
		tmp, _ := os.ReadDir(run.cfg.WARCTempDir)
		tmpNames := []string{}
		for _, e := range tmp {
			tmpNames = append(tmpNames, e.Name())
		}
		run.tr.Emit(map[string]any{"ev": "footprint", "label": label, "seeds": seedsDone, "fds": fds, "goroutines": gor, "temp_files": tmpNames,
			"table": append([]string{}, reactor.GetStateTable()...), "tokens": reactor.TokensInUseForVerif(),
			"buckets": archiver.BucketCountForVerif(), "max_buckets": maxBuckets})
	}
	first := batch(n)
	if err := run.Preload(first); err != nil {
		return err
	}
	run.Start()
	ids := func(ss []Seed) (o []string) {
		for _, s := range ss {
			o = append(o, s.ID)
		}
		return
	}
	ok1 := run.WaitFinished(ids(first), 600*time.Second, 60*time.Second)
	run.WaitDrained(60 * time.Second)
	footprint("N", n)
	second := batch(3 * n)
	if err := insert(second); err != nil {
		return err
	}
	ok2 := run.WaitFinished(ids(second), 1200*time.Second, 60*time.Second)
	run.WaitDrained(60 * time.Second)
	footprint("4N", 4*n)
	run.tr.Emit(map[string]any{"ev": "quiescent", "all_finished": ok1 && ok2, "table": append([]string{}, run.StateTable()...)})
	run.Stop(90 * time.Second)
	run.tr.Emit(map[string]any{"ev": "run.end"})
	return run.tr.Close()
}
