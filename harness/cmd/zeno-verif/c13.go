package main

import (
	"fmt"
	"time"

	"github.com/internetarchive/Zeno/internal/pkg/config"
	"github.com/internetarchive/Zeno/verifharness/origin"
)

// c13: the archiver's side of per-host politeness. With the rate limiter on, one worker and one fetch
// at a time (so requests are strictly sequential), a host answers 429 / 403 / 408 to one URL; the next
// URL of that host waits in the queue. Whatever --max-retry is, the first request for the next URL
// must not reach that host before the penalty (5 s) is over; 5xx answers impose none.
//
// usage: zeno-verif c13 <scratch-dir> <trace> <max-retry>
func init() { scenarios["c13"] = c13pipe }

func c13pipe(args []string) error {
	if len(args) != 3 {
		return fmt.Errorf("usage: c13 <dir> <trace> <max-retry>")
	}
	var maxRetry int
	fmt.Sscan(args[2], &maxRetry)
	run, err := NewRun(args[0], args[1], 4, func(c *config.Config) {
		c.WorkersCount, c.MaxConcurrentAssets = 1, 1
		c.MaxRetry = maxRetry
		c.DisableRateLimit = false
		c.RateLimitCapacity, c.RateLimitRefillRate = 100, 100
		c.RateLimitCleanupFrequency = 5 * time.Minute
		c.WARCDiscardStatus = []int{}
	})
	if err != nil {
		return err
	}
	run.tr.Emit(map[string]any{"ev": "c13.cfg", "max_retry": maxRetry})
	// what the archiver reports to the limiter: 429 / 408 / 425, 5xx, and a 403 that is a challenge page (a plain 403 is
	// an ordinary answer to it: not retried, not reported)
	codes := []int{429, 403, 503, 408}
	var seeds []Seed
	var ids []string
	for h, code := range codes {
		bad := fmt.Sprintf("/c13/bad%d", h)
		hdr := map[string]string{"Content-Type": "text/plain"}
		if code == 403 {
			hdr["cf-mitigated"] = "challenge"
		}
		run.org.Route(h, bad, origin.Resp{Status: code, Headers: hdr, Body: "go away"})
		for k := 0; k < 2; k++ {
			run.org.Route(h, fmt.Sprintf("/c13/ok%d_%d.html", h, k), htmlPage("ok", nil, nil))
		}
	}
	add := func(h int, uri string) {
		id := fmt.Sprintf("seed-%04d", len(seeds))
		seeds = append(seeds, Seed{ID: id, Value: run.org.URL(h, uri)})
		ids = append(ids, id)
	}
	// per host: a good page, the refused one, then two more good pages
	for h := range codes {
		add(h, fmt.Sprintf("/c13/ok%d_0.html", h))
		add(h, fmt.Sprintf("/c13/bad%d", h))
		add(h, fmt.Sprintf("/c13/ok%d_1.html", h))
	}
	if err := run.Preload(seeds); err != nil {
		return err
	}
	run.Start()
	all := run.WaitFinished(ids, 120*time.Second, 30*time.Second)
	run.Quiesce(300*time.Millisecond, 5*time.Second)
	run.tr.Emit(map[string]any{"ev": "quiescent", "all_finished": all, "table": append([]string{}, run.StateTable()...)})
	run.Stop(60 * time.Second)
	run.tr.Emit(map[string]any{"ev": "run.end"})
	return run.tr.Close()
}
