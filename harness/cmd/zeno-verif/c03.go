package main

import (
	"fmt"
	"os"
	"path/filepath"
	"reflect"
	"strconv"
	"strings"
	"sync"
	"sync/atomic"
	"time"

	"github.com/internetarchive/Zeno/internal/pkg/config"
	"github.com/internetarchive/Zeno/internal/pkg/controler/pause"
	"github.com/internetarchive/Zeno/verifharness/origin"
	"github.com/internetarchive/Zeno/verifharness/socks5"
	"github.com/internetarchive/Zeno/verifharness/vh"
	"github.com/internetarchive/Zeno/verifharness/warcread"
)

// c03: one stop moment x one point of the configuration matrix per process. controler.Stop() is
// called from a goroutine of the harness (never from inside a hook) under a watchdog; afterwards the
// WARC directory is listed and every file is parsed record by record to EOF.
//
// usage: zeno-verif c03 <scratch-dir> <trace> <workers> <pool> <async 0|1> <ratelimit 0|1> <seencheck 0|1> <proxy 0|1> <moment>
//
//	moment: idle | drained | paused | paused-midfeed | diskpaused | midfetch | midfetch-discard | midfetch-cut | hook:<point>:<k> | hold:<point>:<k>
//
// midfetch-*: the answer the origin holds back until after Stop was called is one the WARC library ends with an error
// for - a status in --warc-discard-status, or a body cut in mid-transfer.
//
// hook: Stop is requested when the k-th occurrence of the point is reached, the goroutine that reached it runs on.
// hold: the same, but that goroutine is kept at the point until Stop has run ahead as far as it can without it
// (no further step of stopPipeline for 200 ms; at most 3 s) - a stop request arriving exactly there, with the
// rest of the shutdown sequence ahead of the worker.
func init() { scenarios["c03"] = c03 }

func c03(args []string) error {
	if len(args) != 9 {
		return fmt.Errorf("usage: c03 <dir> <trace> <workers> <pool> <async> <ratelimit> <seencheck> <proxy> <moment>")
	}
	w, _ := strconv.Atoi(args[2])
	pool, _ := strconv.Atoi(args[3])
	async, ratelimit, seen, proxy := args[4] == "1", args[5] == "1", args[6] == "1", args[7] == "1"
	moment := args[8]
	var px *socks5.Server
	if proxy {
		var err error
		if px, err = socks5.Listen(); err != nil {
			return err
		}
	}
	run, err := NewRun(args[0], args[1], 3, func(c *config.Config) {
		c.WorkersCount, c.MaxConcurrentAssets = w, 2
		c.WARCPoolSize = pool
		c.WARCWriteAsync = async
		c.WARCQueueSize = -1
		c.DisableRateLimit = !ratelimit
		c.RateLimitCapacity, c.RateLimitRefillRate = 50, 50
		c.DisableSeencheck = !seen
		c.MaxRetry = 1
		c.HTTPTimeout = 4
		if async {
			c.HTTPTimeout = -1 // the default: no request timeout (nothing self-heals after a few seconds)
		}
		c.WARCDiscardStatus = []int{418}
		if moment == "paused-midfeed" {
			c.MaxHops = 1
		}
		if proxy {
			c.Proxy = "socks5://" + px.Addr()
		}
	})
	if err != nil {
		return err
	}
	run.perturb = true
	run.tr.Emit(map[string]any{"ev": "c03.cfg", "workers": w, "pool": pool, "async": async, "ratelimit": ratelimit, "seencheck": seen, "proxy": proxy, "moment": moment})

	r := vh.Rand(300)
	var seeds []Seed
	var ids []string
	for k := 0; k < 14; k++ {
		u, kind := buildSite(r, run.org, k, nil)
		if kind == "unparsable" || kind == "invalid-host" || kind == "excluded" {
			u = run.org.URL(k%3, fmt.Sprintf("/s%d/page.html", k))
		}
		id := fmt.Sprintf("seed-%04d", k)
		seeds = append(seeds, Seed{ID: id, Value: u})
		ids = append(ids, id)
	}
	{
		// a page whose answers do not depend on the random site shapes: retried and failing assets are always present
		fp := "/fixed"
		run.org.Route(0, fp+"/retry.png", origin.Resp{Status: 500, Body: "oops"}, okImage(1))
		run.org.Route(0, fp+"/down.png", origin.Resp{Status: 503, Body: "down"})
		run.org.Route(0, fp+"/busy.png", origin.Resp{Status: 429, Body: "slow down"}, okImage(2))
		run.org.Route(0, fp+"/gone.png", origin.Resp{Status: 404, Body: "gone"})
		run.org.Route(0, fp+"/moved.png", origin.Resp{Status: 302, Location: fp + "/target.png"})
		run.org.Route(0, fp+"/target.png", okImage(3))
		run.org.Route(0, fp+"/page.html", htmlPage("fixed", []string{fp + "/retry.png", fp + "/down.png", fp + "/busy.png", fp + "/gone.png", fp + "/moved.png"}, nil))
		seeds = append([]Seed{{ID: "seed-fixed", Value: run.org.URL(0, fp+"/page.html")}}, seeds...)
		ids = append(ids, "seed-fixed")
	}
	midfetch := strings.HasPrefix(moment, "midfetch")
	if midfetch {
		// a response the origin holds back until well after Stop was called
		held := origin.Resp{Status: 200, Headers: map[string]string{"Content-Type": "application/octet-stream"}, BodyGen: &origin.BodyGen{Kind: "binary", Size: 5000, Seed: 1}, Gate: "held"}
		switch moment {
		case "midfetch-discard":
			held.Status = 418
		case "midfetch-cut":
			held.BodyGen.Size, held.CutAfter = 400000, 150000
		}
		run.org.Route(0, "/slow/held.bin", held)
		seeds = append([]Seed{{ID: "seed-held", Value: run.org.URL(0, "/slow/held.bin")}}, seeds...)
	}
	if moment == "paused-midfeed" {
		// a page with many more outlinks than the channel to the next stage holds; the pipeline is paused when the
		// postprocessor has extracted them, so that the worker is feeding them into a channel nobody drains when the stop comes
		var links []string
		for i := 0; i < 6*w+20; i++ {
			uri := fmt.Sprintf("/hub/leaf%d.html", i)
			run.org.Route(1, uri, htmlPage(fmt.Sprintf("leaf %d", i), nil, nil))
			links = append(links, uri)
		}
		run.org.Route(1, "/hub/index.html", htmlPage("hub", nil, links))
		seeds = append([]Seed{{ID: "seed-hub", Value: run.org.URL(1, "/hub/index.html")}}, seeds...)
	}
	if err := run.Preload(seeds); err != nil {
		return err
	}

	trigger := make(chan string, 1)
	var once sync.Once
	fire := func(why string) { once.Do(func() { trigger <- why }) }
	var count atomic.Int64
	point, k := "", int64(0)
	hold := strings.HasPrefix(moment, "hold:")
	var stopCalled atomic.Bool
	var lastStep atomic.Int64
	if strings.HasPrefix(moment, "hook:") || hold {
		parts := strings.Split(moment, ":")
		point = parts[1]
		kk, _ := strconv.Atoi(parts[2])
		k = int64(kk)
	}
	var archTakes atomic.Int64
	run.extra = func(p string, a ...any) {
		if p == "stop.step" {
			lastStep.Store(time.Now().UnixNano())
		}
		if point != "" && p == point {
			if count.Add(1) == k {
				fire("hook " + p)
				if hold {
					deadline := time.Now().Add(3 * time.Second)
					for time.Now().Before(deadline) {
						if stopCalled.Load() && time.Since(time.Unix(0, lastStep.Load())) > 200*time.Millisecond {
							break
						}
						time.Sleep(5 * time.Millisecond)
					}
				}
			}
		}
		if p == "arch.take" && archTakes.Add(1) == 3 && (moment == "paused") {
			fire("third arch.take")
		}
		if moment == "paused-midfeed" && p == "post.done" && len(a) > 2 {
			if v := reflect.ValueOf(a[2]); v.Kind() == reflect.Slice && v.Len() > 2*w {
				pause.Pause("operator")
				time.Sleep(300 * time.Millisecond) // the idle workers of the other stages acknowledge; this one goes on feeding
				fire(fmt.Sprintf("paused at post.done with %d outlinks", v.Len()))
			}
		}
	}
	if midfetch {
		run.annotate = func(ev map[string]any) {
			if ev["ev"] == "req" && strings.Contains(fmt.Sprint(ev["uri"]), "/slow/held.bin") {
				fire("held request arrived")
			}
		}
	}

	run.Start()
	switch moment {
	case "idle":
		// nothing queued is allowed to matter: stop at once
	case "drained":
		run.WaitFinished(ids, 120*time.Second, 15*time.Second)
		run.Quiesce(300*time.Millisecond, 5*time.Second)
	case "diskpaused":
		// the disk watchdog (5 s ticker) pauses the pipeline on its own
		run.cfg.MinSpaceRequired = 1e9
		for i := 0; i < 900 && !pause.IsPaused(); i++ {
			time.Sleep(10 * time.Millisecond)
		}
		run.tr.Emit(map[string]any{"ev": "paused.by", "who": "disk watchdog", "paused": pause.IsPaused()})
		time.Sleep(300 * time.Millisecond)
	default:
		select {
		case why := <-trigger:
			run.tr.Emit(map[string]any{"ev": "stop.trigger", "why": why})
		case <-time.After(60 * time.Second):
			run.tr.Emit(map[string]any{"ev": "stop.trigger", "why": "moment never reached"})
		}
		if moment == "paused-midfeed" {
			time.Sleep(300 * time.Millisecond) // the feeding worker has filled the channel by now
			run.tr.Emit(map[string]any{"ev": "paused.by", "who": "operator (while outlinks were being fed)", "paused": pause.IsPaused()})
		}
		if moment == "paused" {
			pause.Pause("operator")
			time.Sleep(300 * time.Millisecond) // let the workers acknowledge
			run.tr.Emit(map[string]any{"ev": "paused.by", "who": "operator", "paused": pause.IsPaused()})
		}
	}
	if midfetch {
		go func() { time.Sleep(1500 * time.Millisecond); run.org.Open("held") }()
	}
	// the bound comes from the configuration: one HTTP timeout per attempt, retry sleeps, writer drain
	watchdog := time.Duration(run.cfg.HTTPTimeout*(run.cfg.MaxRetry+1)+2*run.cfg.MaxRetry+25) * time.Second
	lastStep.Store(time.Now().UnixNano())
	stopCalled.Store(true)
	ok := run.Stop(watchdog)
	dir := filepath.Join(run.cfg.JobPath, "warcs")
	open, final := run.WarcFiles()
	run.tr.Emit(map[string]any{"ev": "warc.files", "open": append([]string{}, open...), "final": append([]string{}, final...), "stopped": ok})
	if ok {
		ents, _ := os.ReadDir(dir)
		for _, e := range ents {
			recs, _, trailing, err := warcread.ReadFrom(filepath.Join(dir, e.Name()), 0)
			bad := 0
			for _, rc := range recs {
				if !rc.Complete || rc.Err != "" {
					bad++
				}
			}
			ev := map[string]any{"ev": "warc.parse", "file": e.Name(), "records": len(recs), "trailing": trailing, "bad": bad}
			if err != nil {
				ev["err"] = err.Error()
			}
			run.tr.Emit(ev)
		}
	}
	run.tr.Emit(map[string]any{"ev": "run.end"})
	return run.tr.Close()
}
