package main

import (
	"fmt"
	"strings"
	"sync"
	"sync/atomic"
	"time"

	"github.com/internetarchive/Zeno/internal/pkg/config"
	"github.com/internetarchive/Zeno/pkg/models"
	"github.com/internetarchive/Zeno/verifharness/fakehq"
	"github.com/internetarchive/Zeno/verifharness/origin"
	"github.com/internetarchive/Zeno/verifharness/vh"
)

// c15: hub pages at several hop counts link to leaf pages (some shared between hubs, some with odd
// URL texts) which link one level further; the crawl runs against the local queue or against the
// fake crawl HQ, which fails add / delete / get calls by a seeded script (5xx, connection reset,
// timeout after or before applying).  Batches fill by size and by the 5 s ticker.
//
// usage: zeno-verif c15 <scratch-dir> <trace> <lq|hq> <hubs> <batch> <faults> <timeouts> [workers delay-ms]
//
// With a delay the site is slow: finishes trickle in, the finish batches are flushed by the ticker, and every
// first delete attempt fails - so seeds finish while an earlier, timer-flushed batch is being retried.
func init() { scenarios["c15"] = c15 }

func c15(args []string) error {
	if len(args) != 7 && len(args) != 9 {
		return fmt.Errorf("usage: c15 <dir> <trace> <lq|hq> <hubs> <batch> <faults> <timeouts> [workers delay-ms]")
	}
	workers, delay := 2, 0
	if len(args) == 9 {
		fmt.Sscan(args[7], &workers)
		fmt.Sscan(args[8], &delay)
	}
	mode := args[2]
	var hubs, batch, nfaults, ntimeouts int
	fmt.Sscan(args[3], &hubs)
	fmt.Sscan(args[4], &batch)
	fmt.Sscan(args[5], &nfaults)
	fmt.Sscan(args[6], &ntimeouts)

	var hq *fakehq.Server
	var run *Run
	var emitMu sync.Mutex
	var pendingEv []map[string]any
	hqEmit := func(ev map[string]any) { // the fake is created before the tracer exists
		emitMu.Lock()
		defer emitMu.Unlock()
		if run == nil {
			pendingEv = append(pendingEv, ev)
			return
		}
		run.touch()
		run.tr.Emit(ev)
	}
	if mode == "hq" {
		var err error
		if hq, err = fakehq.New(func(ev map[string]any) { c15Track(ev); hqEmit(ev) }); err != nil {
			return err
		}
		defer hq.Close()
	}
	r0, err := NewRun(args[0], args[1], 3, func(c *config.Config) {
		c.WorkersCount, c.MaxConcurrentAssets = workers, 2
		c.MaxRedirect, c.MaxRetry = 3, 1
		c.HTTPTimeout = 5
		c.MaxHops = 2
		if mode == "hq" {
			c.UseHQ = true
			c.HQAddress, c.HQProject, c.HQKey, c.HQSecret = "http://"+hq.Addr, "P", "k", "s"
			c.HQBatchSize, c.HQBatchConcurrency = batch, 1
			c.Job = "P"
		}
	})
	if err != nil {
		return err
	}
	emitMu.Lock()
	run = r0
	for _, ev := range pendingEv {
		run.tr.Emit(ev)
	}
	emitMu.Unlock()
	run.perturb = true
	run.extra = func(point string, a ...any) {
		switch point {
		case "fin.produce":
			o := a[0].(*models.Item)
			c15mu.Lock()
			c15produced[o.GetURL().Raw] = true
			c15mu.Unlock()
		case "lq.add":
			if rows, err := run.Rows(); err == nil {
				run.tr.Emit(map[string]any{"ev": "lq.rows", "rows": rows})
			}
		}
	}
	r := vh.Rand(1500 + int64(hubs))
	org := run.org
	org.DelayAll = delay

	// ---- the site
	odd := []string{"/leaf/with space.html", "/leaf/q.html?b=2&a=1&a=0", "/leaf/UPPER.html", "/leaf/café.html", "/leaf/semi;colon.html", "/leaf/pct%41.html", "/leaf/plus+sign.html?x=a+b"}
	shared := []string{}
	for i := 0; i < 3; i++ {
		uri := fmt.Sprintf("/shared/s%d.html", i)
		org.Route(0, uri, htmlPage("shared", nil, nil))
		shared = append(shared, org.URL(0, uri))
	}
	var seeds []Seed
	for k := 0; k < hubs; k++ {
		h := k % len(org.Hosts)
		p := fmt.Sprintf("/hub%d", k)
		var links []string
		for i := 0; i < 1+r.Intn(4); i++ {
			leaf := fmt.Sprintf("%s/leaf%d.html", p, i)
			var deeper []string
			for j := 0; j < r.Intn(3); j++ {
				d := fmt.Sprintf("%s/deep%d_%d.html", p, i, j)
				org.Route(h, d, htmlPage("deep", nil, []string{p + "/never.html"})) // at max hops: not extracted
				deeper = append(deeper, d)
			}
			org.Route(h, leaf, htmlPage("leaf", nil, deeper))
			switch r.Intn(3) {
			case 0:
				links = append(links, leaf)
			case 1:
				links = append(links, org.URL(h, leaf))
			default:
				links = append(links, fmt.Sprintf("leaf%d.html", i))
			}
		}
		if r.Intn(2) == 0 {
			links = append(links, shared[r.Intn(len(shared))])
		}
		if r.Intn(2) == 0 {
			o := odd[r.Intn(len(odd))]
			org.Route(h, strings.SplitN(o, "?", 2)[0], htmlPage("odd", nil, nil))
			links = append(links, fmt.Sprintf("/hub%d-odd%s", k, o))
			org.Route(h, fmt.Sprintf("/hub%d-odd%s", k, strings.SplitN(o, "?", 2)[0]), htmlPage("odd", nil, nil))
		}
		hub := htmlPage("hub", nil, links)
		if k%3 == 1 { // an outlink named only in a Link response header (pagination)
			next := p + "/next.html"
			org.Route(h, next, htmlPage("next", nil, nil))
			hub.Headers = map[string]string{"Content-Type": "text/html; charset=utf-8", "Link": "<" + org.URL(h, next) + ">; rel=\"next\""}
		}
		org.Route(h, p+"/index.html", hub)
		hops := r.Intn(2)
		via := ""
		if r.Intn(2) == 0 {
			via = fmt.Sprintf("http://via.example/from/%d", k)
		}
		seeds = append(seeds, Seed{ID: fmt.Sprintf("seed-%04d", k), Value: org.URL(h, p+"/index.html"), Via: via, Hops: hops})
	}

	// ---- the queue
	if mode == "hq" {
		for _, s := range seeds {
			id := hq.Feed(s.Value, s.Via, strings.Repeat("L", s.Hops))
			run.tr.Emit(map[string]any{"ev": "queued", "id": id, "u": s.Value, "via": s.Via, "hops": s.Hops})
		}
		// rows whose text is not a URL: the consumer cannot make seeds of them and acknowledges them by id
		for _, bad := range []string{"http://[::1", "ht!tp://nope/x", "%zz://"} {
			id := hq.Feed(bad, "", "")
			run.tr.Emit(map[string]any{"ev": "queued", "id": id, "u": bad, "via": "", "hops": 0, "unparsable": true})
		}
		kinds := []string{"500", "503", "reset", "timeout-noapply"}
		for _, ep := range []string{"add", "delete", "get"} {
			var seq []string
			for i := 0; i < nfaults; i++ {
				for j := 0; j < r.Intn(3); j++ {
					seq = append(seq, "ok")
				}
				seq = append(seq, kinds[r.Intn(3)])
			}
			for i := 0; i < ntimeouts; i++ {
				at := 0
				if len(seq) > 0 {
					at = r.Intn(len(seq) + 1)
				}
				t := "timeout"
				if ep == "get" || r.Intn(3) == 0 {
					t = "timeout-noapply"
				}
				seq = append(seq[:at], append([]string{t}, seq[at:]...)...)
			}
			if delay > 0 && (ep == "delete" || ep == "add") {
				seq = nil
				for i := 0; i < 12; i++ {
					seq = append(seq, kinds[r.Intn(3)], "ok")
				}
			}
			hq.Faults(ep, seq...)
			run.tr.Emit(map[string]any{"ev": "faults", "endpoint": ep, "seq": seq})
		}
	} else {
		if err := run.Preload(seeds); err != nil {
			return err
		}
	}
	run.tr.Emit(map[string]any{"ev": "c15.mode", "mode": mode, "batch": batch})
	run.Start()
	var feeding atomic.Bool
	if mode == "hq" && delay > 0 {
		// a steady trickle of plain pages: one finish every few hundred ms, for longer than several flush periods
		feeding.Store(true)
		org.Dynamic = func(h int, uri string, cnt int) *origin.Resp {
			if strings.HasPrefix(uri, "/trickle/leaf") {
				p := htmlPage("t", nil, nil)
				return &p
			}
			if strings.HasPrefix(uri, "/trickle/") { // one outlink per page: outlinks trickle in as well
				p := htmlPage("t", nil, []string{"/trickle/leaf" + strings.TrimPrefix(uri, "/trickle/")})
				return &p
			}
			return nil
		}
		go func() {
			defer feeding.Store(false)
			for i := 0; i < 30; i++ {
				u := org.URL(i%len(org.Hosts), fmt.Sprintf("/trickle/%d.html", i))
				id := hq.Feed(u, "", "")
				run.tr.Emit(map[string]any{"ev": "queued", "id": id, "u": u, "via": "", "hops": 0})
				time.Sleep(700 * time.Millisecond)
			}
		}()
	}

	// ---- wait: drained (everything produced was delivered, queue empty, nothing tracked) or idle for 20 s
	drained := false
	deadline := time.Now().Add(240 * time.Second)
	run.touch()
	for time.Now().Before(deadline) {
		idle := time.Since(time.Unix(0, run.lastEvent.Load()))
		empty := false
		if mode == "hq" {
			empty = len(hq.Snapshot()) == 0 && c15AllDelivered()
		} else {
			rows, err := run.Rows()
			empty = err == nil && len(rows) == 0 && atomic.LoadInt64(&run.added) >= atomic.LoadInt64(&run.produced)
		}
		if empty && !feeding.Load() && len(run.StateTable()) == 0 && idle > 1500*time.Millisecond {
			drained = true
			break
		}
		if idle > 20*time.Second && !feeding.Load() {
			break
		}
		time.Sleep(100 * time.Millisecond)
	}
	ev := map[string]any{"ev": "c15.end", "drained": drained, "table": append([]string{}, run.StateTable()...)}
	if mode == "hq" {
		left := []string{}
		for _, u := range hq.Snapshot() {
			left = append(left, u.ID)
		}
		ev["left"] = left
	} else if rows, err := run.Rows(); err == nil {
		run.tr.Emit(map[string]any{"ev": "lq.rows", "rows": rows})
	}
	run.tr.Emit(ev)
	run.Stop(60 * time.Second)
	run.tr.Emit(map[string]any{"ev": "run.end"})
	return run.tr.Close()
}

var (
	c15mu        sync.Mutex
	c15produced  = map[string]bool{}
	c15delivered = map[string]bool{}
)

func c15Track(ev map[string]any) {
	if ev["ev"] != "hq.add" || ev["applied"] != true {
		return
	}
	c15mu.Lock()
	defer c15mu.Unlock()
	for _, u := range ev["urls"].([]map[string]any) {
		c15delivered[u["value"].(string)] = true
	}
}

func c15AllDelivered() bool {
	c15mu.Lock()
	defer c15mu.Unlock()
	for u := range c15produced {
		if !c15delivered[u] {
			return false
		}
	}
	return true
}
