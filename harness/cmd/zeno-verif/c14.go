package main

import (
	"fmt"
	"strconv"
	"strings"
	"sync"
	"sync/atomic"
	"time"

	"github.com/internetarchive/Zeno/internal/pkg/config"
	"github.com/internetarchive/Zeno/internal/pkg/controler/pause"
	"github.com/internetarchive/Zeno/verifharness/vh"
)

// c14: the real stage workers' side of the pause protocol. While seeds flow, the pipeline is paused at
// the k-th arch.take; the harness waits (bounded) for every worker of the four stages to acknowledge,
// keeps the pause for a while (no stage may take work), then either resumes (every seed must still
// finish) or stops the crawler while it is paused (Stop must return).
//
// usage: zeno-verif c14 <scratch-dir> <trace> <workers> <k> <resume|stop|diskstop>   (diskstop: paused by the disk watchdog, then stopped)
func init() { scenarios["c14"] = c14 }

func c14(args []string) error {
	if len(args) != 5 {
		return fmt.Errorf("usage: c14 <dir> <trace> <workers> <k> <resume|stop>")
	}
	w, _ := strconv.Atoi(args[2])
	k, _ := strconv.Atoi(args[3])
	mode := args[4]
	run, err := NewRun(args[0], args[1], 3, func(c *config.Config) {
		c.WorkersCount, c.MaxConcurrentAssets = w, 2
		c.MaxRetry = 1
		c.HTTPTimeout = 4
	})
	if err != nil {
		return err
	}
	run.perturb = true
	r := vh.Rand(1400)
	var seeds []Seed
	var ids []string
	for i := 0; i < 30; i++ {
		u, kind := buildSite(r, run.org, i, nil)
		if kind == "unparsable" || kind == "invalid-host" || kind == "excluded" || kind == "drop" {
			u = run.org.URL(i%3, fmt.Sprintf("/s%d/page.html", i))
		}
		id := fmt.Sprintf("seed-%04d", i)
		seeds = append(seeds, Seed{ID: id, Value: u})
		ids = append(ids, id)
	}
	if err := run.Preload(seeds); err != nil {
		return err
	}
	var takes atomic.Int64
	var acked atomic.Int64
	trigger := make(chan struct{})
	var once sync.Once
	run.extra = func(p string, a ...any) {
		if p == "arch.take" && takes.Add(1) == int64(k) {
			once.Do(func() { close(trigger) })
		}
		if strings.HasSuffix(p, ".paused") {
			acked.Add(1)
		}
	}
	run.Start()
	select {
	case <-trigger:
	case <-time.After(60 * time.Second):
		return fmt.Errorf("the %d-th arch.take never happened", k)
	}
	run.tr.Emit(map[string]any{"ev": "c14.pause.call", "workers": w, "by": mode})
	if mode == "diskstop" {
		// the disk watchdog pauses on its own (5 s ticker) once the operator's threshold cannot be met
		run.cfg.MinSpaceRequired = 1e9
		for i := 0; i < 900 && !pause.IsPaused(); i++ {
			time.Sleep(10 * time.Millisecond)
		}
	} else {
		pause.Pause("verif")
	}
	run.tr.Emit(map[string]any{"ev": "c14.pause.ret", "paused": pause.IsPaused()})
	// every worker finishes what it holds and acknowledges at its next select (bounded by the slowest item)
	deadline := time.Now().Add(12 * time.Second)
	for time.Now().Before(deadline) && acked.Load() < int64(4*w) {
		time.Sleep(5 * time.Millisecond)
	}
	run.tr.Emit(map[string]any{"ev": "c14.settled", "acked": acked.Load(), "expected": 4 * w, "ok": acked.Load() == int64(4*w)})
	time.Sleep(500 * time.Millisecond)
	if mode == "resume" {
		run.tr.Emit(map[string]any{"ev": "c14.resume.call"})
		done := make(chan struct{})
		go func() { pause.Resume(); close(done) }()
		select {
		case <-done:
			run.tr.Emit(map[string]any{"ev": "c14.resume.ret", "paused": pause.IsPaused()})
		case <-time.After(5 * time.Second):
			run.tr.Emit(map[string]any{"ev": "c14.resume.stuck"})
		}
		all := run.WaitFinished(ids, 120*time.Second, 15*time.Second)
		run.Quiesce(300*time.Millisecond, 5*time.Second)
		run.tr.Emit(map[string]any{"ev": "quiescent", "all_finished": all, "table": append([]string{}, run.StateTable()...)})
	} else {
		run.tr.Emit(map[string]any{"ev": "c14.stop.paused"})
	}
	run.Stop(40 * time.Second)
	run.tr.Emit(map[string]any{"ev": "run.end"})
	return run.tr.Close()
}
