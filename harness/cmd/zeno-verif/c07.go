package main

import (
	"fmt"
	"math/rand"
	"regexp"
	"strconv"
	"strings"
	"time"

	"github.com/internetarchive/Zeno/internal/pkg/config"
	"github.com/internetarchive/Zeno/internal/pkg/postprocessor/domainscrawl"
	"github.com/internetarchive/Zeno/verifharness/origin"
	"github.com/internetarchive/Zeno/verifharness/vh"
)

// c07: HTML pages whose references are planted by construction. For every reference the TARGET
// absolute URL is chosen first; then a form is rendered that a browser resolves to exactly that target
// against the page URL (same directory, ./, ../, path-absolute, scheme-relative, absolute). The page
// description (tag, attribute, form, quoting, rel, role, target) is logged; the real pipeline crawls.
//
// usage: zeno-verif c07 <scratch-dir> <trace> <variant A|B|C|D> <n-pages>
func init() { scenarios["c07"] = c07 }

type planted struct {
	Tag    string `json:"tag"`
	Attr   string `json:"attr"`
	Form   string `json:"form"`
	Quote  string `json:"quote"`
	Rel    string `json:"rel"`
	Role   string `json:"role"` // asset | outlink
	Target string `json:"target"`
	Text   string `json:"text"` // the reference as written in the document
}

func c07(args []string) error {
	if len(args) != 4 {
		return fmt.Errorf("usage: c07 <dir> <trace> <variant> <n>")
	}
	variant := args[2]
	n, _ := strconv.Atoi(args[3])
	disabled := []string{}
	captureAlt, disableAssets, domains := false, false, false
	maxHops := 1
	switch variant {
	case "B":
		disabled, captureAlt = []string{"img", "style"}, true
	case "C":
		disableAssets = true
	case "D":
		disabled, maxHops = []string{"script", "link", "source", "video", "audio"}, 0
	case "E": // one tag disabled alone
		disabled = []string{"video"}
	case "F": // a domains crawl on the first host: pages on it are followed without counting hops, the rest within the limit
		domains = true
	case "G":
		disabled = []string{"audio", "img"}
	}
	run, err := NewRun(args[0], args[1], 2, func(c *config.Config) {
		c.WorkersCount, c.MaxConcurrentAssets = 3, 4
		c.MaxHops = maxHops
		c.DisableHTMLTag = disabled
		c.CaptureAlternatePages = captureAlt
		c.DisableAssetsCapture = disableAssets
	})
	if err != nil {
		return err
	}
	if domains {
		if err := domainscrawl.AddElements([]string{"^https?://" + regexp.QuoteMeta(run.org.Hosts[0]) + "/"}); err != nil {
			return err
		}
	}
	run.tr.Emit(map[string]any{"ev": "c07.cfg", "domains_crawl": domains, "variant": variant, "disabled": disabled, "capture_alternate": captureAlt, "disable_assets": disableAssets, "max_hops": maxHops})
	r := vh.Rand(int64(700 + int(variant[0])))
	png := func(seed int) origin.Resp { return okImage(seed) }
	run.org.Dynamic = func(h int, uri string, cnt int) *origin.Resp {
		if strings.Contains(uri, "/t/") { // every planted target exists
			switch {
			case strings.HasSuffix(uri, ".css") || strings.Contains(uri, ".css?"):
				return &origin.Resp{Status: 200, Headers: map[string]string{"Content-Type": "text/css"}, Body: "body{margin:0}"}
			case strings.HasSuffix(uri, ".js"):
				return &origin.Resp{Status: 200, Headers: map[string]string{"Content-Type": "application/javascript"}, Body: "var a=1;"}
			case strings.HasSuffix(uri, ".html"):
				return &origin.Resp{Status: 200, Headers: htmlCT, Body: "<html><body>target</body></html>"}
			}
			p := png(len(uri))
			return &p
		}
		return nil
	}

	var seeds []Seed
	var ids []string
	uid := 0
	for k := 0; k < n; k++ {
		h := k % 2
		pageURI := fmt.Sprintf("/c7/%s%d/dir/sub/page.html", variant, k)
		pageDir := fmt.Sprintf("/c7/%s%d/dir/sub/", variant, k)
		upDir := fmt.Sprintf("/c7/%s%d/dir/", variant, k)
		host := run.org.Hosts[h]
		var pl []planted
		// choose target first, then a form that resolves to it
		mkref := func(ext string, other bool) (target, form, text string) {
			uid++
			name := fmt.Sprintf("t%d.%s", uid, ext)
			switch f := r.Intn(9); {
			case f == 7: // percent-encoded octet in the name
				name = fmt.Sprintf("t%d%%41x.%s", uid, ext)
				return "http://" + host + pageDir + "t/" + name, "pct", "t/" + name
			case f == 8: // empty path segment
				return "http://" + host + "/c7/t//" + name, "dslash", "/c7/t//" + name
			case f == 0: // same directory
				return "http://" + host + pageDir + "t/" + name, "samedir", "t/" + name
			case f == 1:
				return "http://" + host + pageDir + "t/" + name, "dot", "./t/" + name
			case f == 2:
				return "http://" + host + upDir + "t/" + name, "dotdot", "../t/" + name
			case f == 3:
				return "http://" + host + "/c7/t/" + name, "pathabs", "/c7/t/" + name
			case f == 4:
				oh := run.org.Hosts[(h+1)%2]
				return "http://" + oh + "/c7/t/" + name, "schemerel", "//" + oh + "/c7/t/" + name
			case f == 5 && !other: // with a query string
				return "http://" + host + pageDir + "t/" + name + "?v=" + strconv.Itoa(uid), "samedir-query", "t/" + name + "?v=" + strconv.Itoa(uid)
			default:
				return "http://" + host + "/c7/t/abs/" + name, "absolute", "http://" + host + "/c7/t/abs/" + name
			}
		}
		q := func(s string) (string, string) {
			switch r.Intn(3) {
			case 0:
				return `"` + s + `"`, "dq"
			case 1:
				return `'` + s + `'`, "sq"
			default:
				return s, "none"
			}
		}
		var head, body strings.Builder
		add := func(tag, attr, rel, role, ext string) {
			target, form, text := mkref(ext, false)
			qt, qn := q(text)
			pl = append(pl, planted{Tag: tag, Attr: attr, Form: form, Quote: qn, Rel: rel, Role: role, Target: target, Text: text})
			switch tag + "." + attr {
			case "img.src":
				body.WriteString(`<div class=c><img alt=x src=` + qt + `></div>` + "\n")
			case "script.src":
				body.WriteString(`<script src=` + qt + `></script>` + "\n")
			case "link.href":
				head.WriteString(`<link rel="` + rel + `" href=` + qt + `>` + "\n")
			case "video.src":
				body.WriteString(`<video controls src=` + qt + `></video>` + "\n")
			case "audio.src":
				body.WriteString(`<audio src=` + qt + `></audio>` + "\n")
			case "source.src":
				body.WriteString(`<video><source type="video/mp4" src=` + qt + `></video>` + "\n")
			case "a.href":
				body.WriteString(`<p>see <a href=` + qt + `>this</a></p>` + "\n")
			case "style.url":
				head.WriteString("<style>\n.b" + strconv.Itoa(uid) + " { background: url(" + map[string]string{"dq": `"` + text + `"`, "sq": `'` + text + `'`, "none": text}[qn] + ") no-repeat; }\n</style>\n")
			case "styleattr.url":
				inner := map[string]string{"dq": `'` + text + `'`, "sq": `'` + text + `'`, "none": text}[qn]
				body.WriteString(`<div style="background-image: url(` + inner + `); width: 10px"></div>` + "\n")
			}
		}
		addSrcset := func(tag string) {
			t1, f1, x1 := mkref("png", true)
			t2, _, x2 := mkref("png", true)
			pl = append(pl, planted{Tag: tag, Attr: "srcset", Form: f1, Quote: "dq", Role: "asset", Target: t1, Text: x1},
				planted{Tag: tag, Attr: "srcset", Form: f1, Quote: "dq", Role: "asset", Target: t2, Text: x2})
			sep := []string{", ", ",", ",\n   ", " , "}[r.Intn(4)] // candidates are separated by a comma, white space is optional
			if tag == "img" {
				body.WriteString(`<img alt=y srcset="` + x1 + ` 1x` + sep + x2 + ` 2x">` + "\n")
			} else {
				body.WriteString(`<picture><source srcset="` + x1 + ` 480w` + sep + x2 + ` 800w"><img alt=z></picture>` + "\n")
			}
		}
		kinds := [][5]string{{"img", "src", "", "asset", "png"}, {"script", "src", "", "asset", "js"}, {"link", "href", "stylesheet", "asset", "css"},
			{"link", "href", "icon", "asset", "png"}, {"link", "href", "alternate", "asset", "html"}, {"link", "href", "preload", "asset", "js"},
			{"video", "src", "", "asset", "mp4"}, {"audio", "src", "", "asset", "mp3"}, {"source", "src", "", "asset", "mp4"},
			{"a", "href", "", "outlink", "html"}, {"style", "url", "", "asset", "png"}, {"styleattr", "url", "", "asset", "png"}}
		for _, kd := range kinds {
			if r.Intn(3) > 0 {
				add(kd[0], kd[1], kd[2], kd[3], kd[4])
			}
		}
		if r.Intn(2) == 0 {
			addSrcset("img")
		}
		if r.Intn(2) == 0 {
			addSrcset("source")
		}
		// decoys: must not matter
		body.WriteString("<!-- <img src=\"/c7/decoy/commented.png\"> -->\n<p>plain text http://" + host + "/c7/decoy/text.png and src=\"/c7/decoy/quoted.png\"</p>\n")
		doc := "<!DOCTYPE html>\n<html><head><meta charset=\"utf-8\"><title>p" + strconv.Itoa(k) + "</title>\n" + head.String() + "</head>\n<body>\n" + body.String() + "</body></html>\n"
		run.org.Route(h, pageURI, origin.Resp{Status: 200, Headers: htmlCT, Body: doc})
		id := fmt.Sprintf("seed-%s-%03d", variant, k)
		u := run.org.URL(h, pageURI)
		entry := u
		if k%3 == 1 {
			// the page is reached through a redirect from another directory: references resolve against the
			// URL the document was actually served from, not against the seed's
			old := fmt.Sprintf("/c7/%s%d/old", variant, k)
			run.org.Route(h, old, origin.Resp{Status: 302, Location: pageURI})
			entry = run.org.URL(h, old)
		}
		seeds = append(seeds, Seed{ID: id, Value: entry})
		ids = append(ids, id)
		run.tr.Emit(map[string]any{"ev": "doc", "id": id, "page": u, "entry": entry, "planted": pl})
	}
	_ = rand.Int
	if err := run.Preload(seeds); err != nil {
		return err
	}
	run.Start()
	all := run.WaitFinished(ids, 180*time.Second, 20*time.Second)
	all = run.WaitDrained(300*time.Second) && all // the outlinks are queued and crawled as well
	run.Quiesce(300*time.Millisecond, 5*time.Second)
	run.tr.Emit(map[string]any{"ev": "quiescent", "all_finished": all, "table": append([]string{}, run.StateTable()...)})
	run.Stop(60 * time.Second)
	run.tr.Emit(map[string]any{"ev": "run.end"})
	return run.tr.Close()
}
