package main

import (
	"fmt"
	"net/http"
	"os"
	"path/filepath"
	"strconv"
	"strings"
	"sync"
	"time"

	"github.com/internetarchive/Zeno/internal/pkg/config"
	"github.com/internetarchive/Zeno/pkg/models"
	"github.com/internetarchive/Zeno/verifharness/origin"
	"github.com/internetarchive/Zeno/verifharness/vh"
	"github.com/internetarchive/Zeno/verifharness/warcread"
)

// c02: response bodies of every class (sizes around the 2 KB sniff window, the 2 MB spool threshold
// and the dedupe threshold; text / html / binary; identity / gzip; content-length / chunked; statuses
// incl. discarded ones) are crawled. Inside the finisher's hook - i.e. before the finish message is
// sent - the WARC directory is read by the independent reader and the new records are logged.
//
// usage: zeno-verif c02 <scratch-dir> <trace> <pool> <ondisk 0|1> <localdedupe 0|1> <n-seeds> <big 0|1>
func init() { scenarios["c02"] = c02 }

func c02(args []string) error {
	if len(args) != 7 && len(args) != 8 {
		return fmt.Errorf("usage: c02 <dir> <trace> <pool> <ondisk> <dedupe> <n> <big> [stophold]")
	}
	// stophold: the crawl is stopped (gracefully) while the write of one seed's response is being held
	stophold := len(args) == 8 && args[7] == "stophold"
	stopNow := make(chan struct{}, 1)
	pool, _ := strconv.Atoi(args[2])
	ondisk := args[3] == "1"
	dedupe := args[4] == "1"
	n, _ := strconv.Atoi(args[5])
	big := args[6] == "1"
	discard := []int{429, 418}
	run, err := NewRun(args[0], args[1], 2, func(c *config.Config) {
		c.WorkersCount, c.MaxConcurrentAssets = 3, 3
		c.WARCPoolSize = pool
		c.WARCOnDisk = ondisk
		c.DisableLocalDedupe = !dedupe
		c.WARCDedupeSize = 1024
		c.WARCDiscardStatus = discard
		c.MaxRetry = 1
		c.HTTPTimeout = 20
	})
	if err != nil {
		return err
	}
	run.tr.Emit(map[string]any{"ev": "c02.cfg", "pool": pool, "ondisk": ondisk, "dedupe": dedupe, "discard": discard})

	// incremental snapshot of the WARC directory
	var snapMu sync.Mutex
	offsets := map[string]int64{}
	snapshot := func(why, id string) {
		snapMu.Lock()
		defer snapMu.Unlock()
		dir := filepath.Join(run.cfg.JobPath, "warcs")
		ents, _ := os.ReadDir(dir)
		var recs []warcread.Record
		trailing := []string{}
		for _, e := range ents {
			base := strings.TrimSuffix(e.Name(), ".open")
			rs, next, tr, err := warcread.ReadFrom(filepath.Join(dir, e.Name()), offsets[base])
			if err != nil {
				continue
			}
			offsets[base] = next
			for i := range rs {
				rs[i].File = base
			}
			recs = append(recs, rs...)
			if tr {
				trailing = append(trailing, base)
			}
		}
		if recs == nil {
			recs = []warcread.Record{}
		}
		run.tr.Emit(map[string]any{"ev": "disk", "why": why, "id": id, "records": recs, "trailing": trailing})
	}
	held := map[string]bool{}
	var heldMu sync.Mutex
	run.extra = func(point string, a ...any) {
		switch point {
		case "fin.finish":
			snapshot("finish", a[0].(*models.Item).GetID())
		case "arch.discard":
			// library-side call (no request attached): hold the write of gated responses for a while;
			// the seed must not be reported finished meanwhile
			resp := a[0].(*http.Response)
			if resp.Request == nil && resp.Header.Get("X-Verif-Hold") != "" {
				name := resp.Header.Get("X-Verif-Hold")
				heldMu.Lock()
				first := !held[name]
				held[name] = true
				heldMu.Unlock()
				if first {
					run.tr.Emit(map[string]any{"ev": "hold.begin", "seed": name})
					if name == "seed-stophold" {
						select {
						case stopNow <- struct{}{}:
						default:
						}
						time.Sleep(800 * time.Millisecond)
					}
					time.Sleep(700 * time.Millisecond)
					run.tr.Emit(map[string]any{"ev": "hold.end", "seed": name})
				}
			}
		}
	}

	r := vh.Rand(200 + int64(pool))
	sizes := []int{0, 1, 2047, 2048, 2049, 70000}
	if big {
		sizes = append(sizes, 2097151, 2097152, 2097153, 3000000)
	}
	kinds := []string{"text", "html", "binary"}
	ctypes := map[string]string{"text": "text/plain", "html": "text/html", "binary": "application/octet-stream"}
	var seeds []Seed
	var ids []string
	addSeed := func(uri string, h int) string {
		id := fmt.Sprintf("seed-%04d", len(seeds))
		seeds = append(seeds, Seed{ID: id, Value: run.org.URL(h, uri)})
		ids = append(ids, id)
		return id
	}
	k := 0
	for len(seeds) < n {
		k++
		h := k % 2
		uri := fmt.Sprintf("/c02/r%d", k)
		size := sizes[r.Intn(len(sizes))]
		kind := kinds[r.Intn(3)]
		resp := origin.Resp{Status: 200, Headers: map[string]string{"Content-Type": ctypes[kind]},
			BodyGen: &origin.BodyGen{Kind: kind, Size: size, Seed: k}, Gzip: r.Intn(3) == 0, Chunked: r.Intn(3) == 0}
		switch c := r.Intn(16); {
		case c == 0:
			resp.Status = 404
		case c == 1: // 500 then 200: both responses are accepted by the discard policy
			// (error answers come in all sizes and framings too)
			first := origin.Resp{Status: []int{500, 503, 502}[k%3], Headers: map[string]string{"Content-Type": "text/plain"},
				BodyGen: &origin.BodyGen{Kind: "text", Size: sizes[r.Intn(len(sizes))], Seed: k + 7}, Chunked: r.Intn(3) == 0}
			if k%2 == 0 { // the write of the attempt that is retried is held for a while: no finish meanwhile
				first.Headers["X-Verif-Hold"] = fmt.Sprintf("seed-%04d", len(seeds))
			}
			run.org.Route(h, uri, first, resp)
			addSeed(uri, h)
			continue
		case c == 15: // fails for good (503 on every attempt): the last answer is an accepted response too, its write is held
			run.org.Route(h, uri, origin.Resp{Status: 503, Headers: map[string]string{"Content-Type": "text/plain"},
				BodyGen: &origin.BodyGen{Kind: "text", Size: sizes[r.Intn(len(sizes))], Seed: k + 8}, Chunked: r.Intn(3) == 0},
				origin.Resp{Status: 503, Headers: map[string]string{"Content-Type": "text/plain", "X-Verif-Hold": fmt.Sprintf("seed-%04d", len(seeds))},
					BodyGen: &origin.BodyGen{Kind: "text", Size: sizes[r.Intn(len(sizes))], Seed: k + 9}, Chunked: r.Intn(3) == 0})
			addSeed(uri, h)
			continue
		case c == 2: // Cloudflare challenge: rejected, then a real answer
			run.org.Route(h, uri, origin.Resp{Status: 403, Headers: map[string]string{"Content-Type": "text/html", "cf-mitigated": "challenge"}, Body: "<html>challenge " + uri + "</html>"}, resp)
			addSeed(uri, h)
			continue
		case c == 3: // status in --warc-discard-status and retried
			run.org.Route(h, uri, origin.Resp{Status: 429, Headers: map[string]string{"Content-Type": "text/plain"}, Body: "slow down " + uri}, resp)
			addSeed(uri, h)
			continue
		case c == 4: // status in --warc-discard-status, not retried
			resp.Status = 418
		case c == 5: // plain 403 (no challenge header): accepted
			resp.Status = 403
		case c == 6: // redirect to a body
			t := uri + "-target"
			run.org.Route(h, t, resp)
			// (the redirect answer has a body of its own, of any size and framing: it is a response like the others)
			run.org.Route(h, uri, origin.Resp{Status: []int{301, 302, 303, 307, 308}[k%5], Location: t, Headers: map[string]string{"Content-Type": "text/html"},
				BodyGen: &origin.BodyGen{Kind: "html", Size: sizes[r.Intn(len(sizes))], Seed: k + 11}, Chunked: r.Intn(3) == 0})
			addSeed(uri, h)
			continue
		case c == 7 || c == 8: // identical payload at two URLs, above the dedupe threshold
			resp.BodyGen = &origin.BodyGen{Kind: "repeat", Size: 6000, Seed: 1}
			resp.Gzip, resp.Chunked = false, false
		case c == 9: // a page with assets: several fetches in flight for one seed, one of them gated
			id := fmt.Sprintf("seed-%04d", len(seeds))
			var assets []string
			for j := 0; j < 3; j++ {
				a := fmt.Sprintf("%s/a%d.bin", uri, j)
				ar := origin.Resp{Status: 200, Headers: map[string]string{"Content-Type": "application/octet-stream"}, BodyGen: &origin.BodyGen{Kind: "binary", Size: sizes[r.Intn(len(sizes))], Seed: k*10 + j}}
				if j == 1 {
					ar.Headers["X-Verif-Hold"] = id
				}
				run.org.Route(h, a, ar)
				assets = append(assets, a)
			}
			run.org.Route(h, uri, htmlPage("c02", assets, nil))
			addSeed(uri, h)
			continue
		}
		run.org.Route(h, uri, resp)
		addSeed(uri, h)
	}
	if stophold {
		uri := "/c02/stophold.bin"
		run.org.Route(0, uri, origin.Resp{Status: 200, Headers: map[string]string{"Content-Type": "application/octet-stream", "X-Verif-Hold": "seed-stophold"},
			BodyGen: &origin.BodyGen{Kind: "binary", Size: 70000, Seed: 3}})
		seeds = append([]Seed{{ID: "seed-stophold", Value: run.org.URL(0, uri)}}, seeds...)
	}
	if err := run.Preload(seeds); err != nil {
		return err
	}
	run.Start()
	if stophold {
		select {
		case <-stopNow:
		case <-time.After(60 * time.Second):
		}
		run.tr.Emit(map[string]any{"ev": "graceful.stop"})
		run.Stop(90 * time.Second)
		snapshot("stopped", "")
		open, final := run.WarcFiles()
		run.tr.Emit(map[string]any{"ev": "warc.files", "open": append([]string{}, open...), "final": append([]string{}, final...)})
		run.tr.Emit(map[string]any{"ev": "run.end"})
		return run.tr.Close()
	}
	all := run.WaitFinished(ids, 300*time.Second, 30*time.Second)
	run.Quiesce(300*time.Millisecond, 5*time.Second)
	run.tr.Emit(map[string]any{"ev": "quiescent", "all_finished": all, "table": append([]string{}, run.StateTable()...)})
	run.Stop(90 * time.Second)
	snapshot("stopped", "")
	open, final := run.WarcFiles()
	run.tr.Emit(map[string]any{"ev": "warc.files", "open": append([]string{}, open...), "final": append([]string{}, final...)})
	run.tr.Emit(map[string]any{"ev": "run.end"})
	return run.tr.Close()
}
