package main

import (
	"fmt"
	"math/big"
	"os"
	"path/filepath"
	"syscall"
	"time"

	"github.com/internetarchive/Zeno/internal/pkg/config"
)

// c18start: the start-up decision of the real crawler when the job directory is on another volume than the working
// directory (jobs/ is a link into <other-volume-dir>), with --min-space-required between the free space of the two:
// the decision must follow the JOB's volume. A refused start ends the process ("can't start Zeno", exit 1), so the
// outcome is read by the caller: the trace has a "startup.try" record with the job volume's numbers, and a
// "startup.accepted" record only if the crawler started.
//
// usage: zeno-verif c18start <scratch-dir> <trace> <other-volume-dir>
func init() { scenarios["c18start"] = c18start }

func c18start(args []string) error {
	if len(args) != 3 {
		return fmt.Errorf("usage: c18start <dir> <trace> <other-volume-dir>")
	}
	dir, other := args[0], args[2]
	if err := os.MkdirAll(dir, 0755); err != nil {
		return err
	}
	if err := os.MkdirAll(filepath.Join(other, "jobs"), 0755); err != nil {
		return err
	}
	if err := os.Symlink(filepath.Join(other, "jobs"), filepath.Join(dir, "jobs")); err != nil {
		return err
	}
	stat := func(p string) (total, free uint64) {
		var st syscall.Statfs_t
		if err := syscall.Statfs(p, &st); err != nil {
			panic(err)
		}
		return st.Blocks * uint64(st.Bsize), st.Bavail * uint64(st.Bsize)
	}
	_, freeCwd := stat(dir)
	totalJob, freeJob := stat(other)
	const gib = float64(1 << 30)
	msr := (float64(freeCwd) + float64(freeJob)) / 2 / gib
	run, err := NewRun(dir, args[1], 1, func(c *config.Config) { c.MinSpaceRequired = msr })
	if err != nil {
		return err
	}
	run.tr.Sync = true
	diff := float64(freeCwd) - float64(freeJob)
	if diff < 0 {
		diff = -diff
	}
	if diff < 4*gib {
		run.tr.Emit(map[string]any{"ev": "startup.skip", "why": "the two volumes have (nearly) the same free space"})
		return run.tr.Close()
	}
	split := func(n uint64) (uint64, uint64) { return n >> 20, n & (1<<20 - 1) }
	r := new(big.Rat).SetFloat64(msr)
	r.Mul(r, new(big.Rat).SetInt(new(big.Int).Lsh(big.NewInt(1), 30)))
	q := new(big.Int).Quo(r.Num(), r.Denom())
	frac := new(big.Int).Mul(q, r.Denom()).Cmp(r.Num()) != 0
	tq, trr := split(totalJob)
	fq, fr := split(freeJob)
	hq, hr := split(q.Uint64())
	run.tr.Emit(map[string]any{"ev": "startup.try", "cls": "startup-two-volumes", "tq": tq, "tr": trr, "fq": fq, "fr": fr, "msr": true, "msrv": msr,
		"hq": hq, "hr": hr, "hf": frac, "free_cwd": freeCwd, "free_job": freeJob, "job_below": float64(freeJob) < msr*gib})
	run.Start() // a refusal ends the process here
	_, f2 := stat(other)
	run.tr.Emit(map[string]any{"ev": "startup.accepted", "free_job_after": f2})
	time.Sleep(100 * time.Millisecond)
	run.Stop(60 * time.Second)
	run.tr.Emit(map[string]any{"ev": "run.end"})
	return run.tr.Close()
}
