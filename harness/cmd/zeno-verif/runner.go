package main

import (
	"database/sql"
	"fmt"
	"net/http"
	"os"
	"path/filepath"
	"runtime"
	"strings"
	"sync"
	"sync/atomic"
	"time"

	_ "github.com/ncruces/go-sqlite3/driver"
	_ "github.com/ncruces/go-sqlite3/embed"

	"github.com/internetarchive/Zeno/internal/pkg/config"
	"github.com/internetarchive/Zeno/internal/pkg/controler"
	"github.com/internetarchive/Zeno/internal/pkg/reactor"
	"github.com/internetarchive/Zeno/internal/pkg/source/lq/sqlc_model"
	"github.com/internetarchive/Zeno/internal/pkg/stats"
	"github.com/internetarchive/Zeno/internal/pkg/verifhook"
	"github.com/internetarchive/Zeno/pkg/models"
	"github.com/internetarchive/Zeno/verifharness/origin"
	"github.com/internetarchive/Zeno/verifharness/vh"
)

// Run is one pipeline run inside this process (the pipeline cannot be restarted in-process).
type Run struct {
	tr        *vh.Tracer
	org       *origin.Server
	cfg       *config.Config
	dir       string
	mu        sync.Mutex
	fin       map[string]int // finish messages per seed id
	produced  int64
	added     int64
	perturb   bool
	ctr       atomic.Uint64
	extra     func(point string, a ...any) // property-specific handler, called before recording
	after     func(point string, a ...any) // property-specific handler, called after recording (the event is in the trace)
	annotate  func(ev map[string]any)      // property-specific labels added to origin and outlink events
	started   bool
	lastEvent atomic.Int64 // unix nanos of the last hook / origin event (idle detection)
}

func urlName(u *models.URL) string {
	if u == nil {
		return ""
	}
	if u.GetParsed() != nil {
		return u.String()
	}
	return u.Raw
}

type pnode struct {
	D  int    `json:"d"`
	U  string `json:"u"`
	St string `json:"st"`
	R  int    `json:"r"`
	H  int    `json:"h"`
}

func project(seed *models.Item) []pnode {
	var out []pnode
	var walk func(n *models.Item, d int)
	walk = func(n *models.Item, d int) {
		if n == nil {
			return
		}
		out = append(out, pnode{D: d, U: urlName(n.GetURL()), St: n.GetStatus().String(), R: n.GetURL().GetRedirects(), H: n.GetURL().GetHops()})
		for _, c := range n.GetChildren() {
			walk(c, d+1)
		}
	}
	walk(seed, 0)
	return out
}

// NewRun prepares a run in scratch directory dir (the process chdirs there: JobPath is relative).
func NewRun(dir, tracePath string, nhosts int, mutate func(c *config.Config)) (*Run, error) {
	return NewRunAt(dir, tracePath, nhosts, nil, mutate)
}

// NewRunAt is NewRun with fixed origin addresses (nil: pick free ports).
func NewRunAt(dir, tracePath string, nhosts int, addrs []string, mutate func(c *config.Config)) (*Run, error) {
	if err := os.MkdirAll(dir, 0755); err != nil {
		return nil, err
	}
	if err := os.Chdir(dir); err != nil {
		return nil, err
	}
	tr, err := vh.NewTracer(tracePath)
	if err != nil {
		return nil, err
	}
	tr.Sync = true
	tr.Stamp = true
	r := &Run{tr: tr, dir: dir, fin: map[string]int{}}
	emit := func(ev map[string]any) {
		r.touch()
		if r.annotate != nil {
			r.annotate(ev)
		}
		tr.Emit(ev)
	}
	if addrs == nil {
		r.org, err = origin.New(nhosts, emit)
	} else {
		r.org, err = origin.NewAt(addrs, emit)
	}
	if err != nil {
		return nil, err
	}
	r.cfg = vh.InitConfigOnly("job", func(c *config.Config) {
		c.WorkersCount = 2
		c.MaxConcurrentAssets = 2
		c.WARCTempDir = ""
		if mutate != nil {
			mutate(c)
		}
	})
	verifhook.Set(r.hook)
	return r, nil
}

func (r *Run) touch() { r.lastEvent.Store(time.Now().UnixNano()) }

func (r *Run) hook(point string, a ...any) {
	idlePoll := strings.HasPrefix(point, "watch.")
	if point == "lq.claim" { // the consumer polls the queue four times a second: an empty claim is not activity
		if u, ok := a[0].([]sqlc_model.Url); ok && len(u) == 0 {
			idlePoll = true
		}
	}
	if !idlePoll {
		r.touch()
	}
	if r.perturb {
		h := r.ctr.Add(1)*0x9E3779B97F4A7C15 + uint64(vh.Seed())*0xBF58476D1CE4E5B9
		h ^= h >> 31
		switch h % 6 {
		case 0:
			runtime.Gosched()
		case 1:
			time.Sleep(time.Duration(h>>10%400) * time.Microsecond)
		}
	}
	if r.extra != nil {
		r.extra(point, a...)
	}
	switch point {
	case "pre.take", "pre.done", "arch.take", "arch.done", "post.take", "post.closed", "fin.feedback":
		seed := a[0].(*models.Item)
		ev := map[string]any{"ev": point, "id": seed.GetID(), "w": a[1], "st": seed.GetStatus().String(), "tree": project(seed)}
		if point == "pre.take" {
			ev["via"], ev["raw"] = seed.GetSeedVia(), seed.GetURL().Raw
		}
		r.tr.Emit(ev)
	case "post.done":
		seed := a[0].(*models.Item)
		outs := []map[string]any{}
		for _, o := range a[2].([]*models.Item) {
			om := map[string]any{"ev": "outlink", "id": o.GetID(), "u": o.GetURL().Raw, "via": o.GetSeedVia(), "hops": o.GetURL().GetHops()}
			if r.annotate != nil {
				r.annotate(om)
			}
			outs = append(outs, om)
		}
		r.tr.Emit(map[string]any{"ev": point, "id": seed.GetID(), "w": a[1], "st": seed.GetStatus().String(), "tree": project(seed), "outlinks": outs})
	case "fin.produce":
		o := a[0].(*models.Item)
		atomic.AddInt64(&r.produced, 1)
		r.tr.Emit(map[string]any{"ev": point, "id": o.GetID(), "u": o.GetURL().Raw, "via": o.GetSeedVia(), "hops": o.GetURL().GetHops()})
	case "lq.finish.recv":
		seed := a[0].(*models.Item)
		r.mu.Lock()
		r.fin[seed.GetID()]++
		r.mu.Unlock()
		r.tr.Emit(map[string]any{"ev": point, "id": seed.GetID(), "st": seed.GetStatus().String(), "tree": project(seed),
			"parsed": seed.GetURL() != nil && seed.GetURL().GetParsed() != nil})
	case "lq.produce.recv":
		o := a[0].(*models.Item)
		r.tr.Emit(map[string]any{"ev": point, "id": o.GetID(), "u": o.GetURL().Raw, "via": o.GetSeedVia(), "hops": o.GetURL().GetHops()})
	case "fin.finish":
		seed := a[0].(*models.Item)
		r.tr.Emit(map[string]any{"ev": point, "id": seed.GetID(), "w": a[1], "st": seed.GetStatus().String(), "tree": project(seed)})
	case "arch.item.response":
		item := a[0].(*models.Item)
		ev := map[string]any{"ev": point, "u": urlName(item.GetURL()), "retry": a[1], "seed": item.GetSeed().GetID()}
		if resp, _ := a[2].(*http.Response); resp != nil {
			ev["status"] = resp.StatusCode
		}
		if err, _ := a[3].(error); err != nil {
			ev["err"] = err.Error()
		}
		r.tr.Emit(ev)
	case "arch.item.archived":
		item := a[0].(*models.Item)
		r.tr.Emit(map[string]any{"ev": point, "u": urlName(item.GetURL()), "seed": item.GetSeed().GetID()})
	case "lq.claim":
		ids := []string{}
		rows := []map[string]any{}
		for _, u := range a[0].([]sqlc_model.Url) {
			ids = append(ids, u.ID)
			rows = append(rows, map[string]any{"id": u.ID, "value": u.Value, "via": u.Via, "hops": u.Hops})
		}
		if len(ids) > 0 {
			r.tr.Emit(map[string]any{"ev": point, "ids": ids, "urls": rows})
		}
	case "lq.delete":
		ids := []string{}
		for _, u := range a[0].([]sqlc_model.Url) {
			ids = append(ids, u.ID)
		}
		r.tr.Emit(map[string]any{"ev": point, "ids": ids})
	case "lq.add":
		vals := []map[string]any{}
		atomic.AddInt64(&r.added, int64(len(a[0].([]sqlc_model.Url))))
		for _, u := range a[0].([]sqlc_model.Url) {
			vals = append(vals, map[string]any{"value": u.Value, "via": u.Via, "hops": u.Hops})
		}
		r.tr.Emit(map[string]any{"ev": point, "urls": vals})
	case "lq.sender.take", "lq.buffer.put", "lq.stop.reset":
		r.tr.Emit(map[string]any{"ev": point, "id": a[0]})
	case "seencheck.get":
		r.tr.Emit(map[string]any{"ev": point, "u": a[0], "type": a[1], "found": a[2], "as": a[3]})
	case "stop.step":
		r.tr.Emit(map[string]any{"ev": point, "step": a[0]})
	case "reactor.finish.deleted": // the seed left the state table; its token is released right after
		r.tr.Emit(map[string]any{"ev": point, "id": a[0]})
	case "pre.start", "pre.exit", "arch.start", "arch.exit", "post.start", "post.exit", "fin.start", "fin.exit",
		"pre.paused", "pre.woken", "arch.paused", "arch.woken", "post.paused", "post.woken", "fin.paused", "fin.woken":
		r.tr.Emit(map[string]any{"ev": point, "w": a[0]})
	}
	if r.after != nil {
		r.after(point, a...)
	}
}

// Seed is one row of the local queue.
type Seed struct {
	ID    string
	Value string
	Via   string
	Hops  int
}

// Preload creates jobs/<job>/lq.db with the repository's schema and the given rows.
func (r *Run) Preload(seeds []Seed) error {
	if err := os.MkdirAll(r.cfg.JobPath, 0755); err != nil {
		return err
	}
	repo := os.Getenv("VERIF_REPO")
	if repo == "" {
		repo = "/repo"
	}
	ddl, err := os.ReadFile(filepath.Join(repo, "internal/pkg/source/lq/schema.sql"))
	if err != nil {
		return err
	}
	db, err := sql.Open("sqlite3", "file:"+filepath.Join(r.cfg.JobPath, "lq.db"))
	if err != nil {
		return err
	}
	defer db.Close()
	if _, err := db.Exec(string(ddl)); err != nil {
		return err
	}
	for _, s := range seeds {
		if _, err := db.Exec("INSERT INTO urls (id, value, via, hops) VALUES (?, ?, ?, ?)", s.ID, s.Value, s.Via, s.Hops); err != nil {
			return fmt.Errorf("insert %s: %w", s.Value, err)
		}
		r.tr.Emit(map[string]any{"ev": "queued", "id": s.ID, "u": s.Value, "hops": s.Hops})
	}
	return nil
}

// Rows returns the current content of the queue (read-only connection).
func (r *Run) Rows() ([]map[string]any, error) { return r.rows("?mode=ro") }

// RowsRecover reads the queue through a read-write connection: after a kill the database may need the journal
// replayed, which a read-only connection cannot do (only used while no crawler is running on the job).
func (r *Run) RowsRecover() ([]map[string]any, error) { return r.rows("") }

func (r *Run) rows(opts string) ([]map[string]any, error) {
	db, err := sql.Open("sqlite3", "file:"+filepath.Join(r.cfg.JobPath, "lq.db")+opts)
	if err != nil {
		return nil, err
	}
	defer db.Close()
	rows, err := db.Query("SELECT id, value, via, hops, status FROM urls ORDER BY value")
	if err != nil {
		return nil, err
	}
	defer rows.Close()
	out := []map[string]any{}
	for rows.Next() {
		var id, value, via, status string
		var hops int
		if err := rows.Scan(&id, &value, &via, &hops, &status); err != nil {
			return nil, err
		}
		out = append(out, map[string]any{"id": id, "value": value, "via": via, "hops": hops, "status": status})
	}
	return out, nil
}

func (r *Run) Start() {
	r.tr.Emit(map[string]any{"ev": "run.start", "workers": r.cfg.WorkersCount, "assets": r.cfg.MaxConcurrentAssets, "max_redirect": r.cfg.MaxRedirect,
		"max_retry": r.cfg.MaxRetry, "max_hops": r.cfg.MaxHops, "hosts": r.org.Hosts})
	controler.Start()
	r.started = true
	r.tr.Emit(map[string]any{"ev": "run.started"})
	// worker gauges while the workers are alive (bounded wait for the goroutines to come up)
	for i := 0; i < 1500; i++ {
		if int(stats.PreprocessorRoutinesGet()) == r.cfg.WorkersCount && int(stats.ArchiverRoutinesGet()) == r.cfg.WorkersCount && int(stats.PostprocessorRoutinesGet()) == r.cfg.WorkersCount {
			break
		}
		time.Sleep(10 * time.Millisecond)
	}
	r.tr.Emit(map[string]any{"ev": "gauges", "phase": "running", "workers": r.cfg.WorkersCount, "pre": stats.PreprocessorRoutinesGet(),
		"arch": stats.ArchiverRoutinesGet(), "post": stats.PostprocessorRoutinesGet()})
}

func (r *Run) finishedCount(ids []string) (n int) {
	r.mu.Lock()
	defer r.mu.Unlock()
	for _, id := range ids {
		if r.fin[id] > 0 {
			n++
		}
	}
	return
}

// WaitFinished waits until every id has a finish message, or the pipeline has been idle (no hook and
// no origin event) for idle, or timeout.
func (r *Run) WaitFinished(ids []string, timeout, idle time.Duration) bool {
	deadline := time.Now().Add(timeout)
	r.touch()
	for time.Now().Before(deadline) {
		if r.finishedCount(ids) == len(ids) {
			return true
		}
		if time.Since(time.Unix(0, r.lastEvent.Load())) > idle {
			return false
		}
		time.Sleep(10 * time.Millisecond)
	}
	return false
}

// WaitDrained waits until the queue holds no row any more, the reactor tracks nothing and nothing has
// happened for a second (outlinks are queued and crawled too; finish acknowledgements are batched).
func (r *Run) WaitDrained(timeout time.Duration) bool {
	deadline := time.Now().Add(timeout)
	for time.Now().Before(deadline) {
		rows, err := r.Rows()
		if err != nil && os.Getenv("VERIF_DEBUG") != "" {
			fmt.Fprintln(os.Stderr, "rows:", err)
		}
		if err == nil && len(rows) == 0 && len(r.StateTable()) == 0 && atomic.LoadInt64(&r.added) >= atomic.LoadInt64(&r.produced) && time.Since(time.Unix(0, r.lastEvent.Load())) > time.Second {
			return true
		}
		time.Sleep(100 * time.Millisecond)
	}
	return false
}

// Quiesce waits until nothing has happened for d (bounded by max).
func (r *Run) Quiesce(d, max time.Duration) {
	deadline := time.Now().Add(max)
	for time.Now().Before(deadline) {
		if time.Since(time.Unix(0, r.lastEvent.Load())) > d {
			return
		}
		time.Sleep(10 * time.Millisecond)
	}
}

// Stop runs controler.Stop under a watchdog and reports what is left on disk.
func (r *Run) Stop(watchdog time.Duration) bool {
	r.tr.Emit(map[string]any{"ev": "stop.call"})
	done := make(chan struct{})
	go func() { controler.Stop(); close(done) }()
	ok := true
	select {
	case <-done:
		r.tr.Emit(map[string]any{"ev": "stop.ret"})
		r.tr.Emit(map[string]any{"ev": "gauges", "phase": "stopped", "workers": 0, "pre": stats.PreprocessorRoutinesGet(),
			"arch": stats.ArchiverRoutinesGet(), "post": stats.PostprocessorRoutinesGet()})
	case <-time.After(watchdog):
		ok = false
		r.tr.Emit(map[string]any{"ev": "stop.stuck", "after_ms": watchdog.Milliseconds()})
	}
	return ok
}

func (r *Run) StateTable() []string {
	defer func() { recover() }()
	return reactor.GetStateTable()
}

func (r *Run) WarcFiles() (open []string, final []string) {
	ents, _ := os.ReadDir(filepath.Join(r.cfg.JobPath, "warcs"))
	for _, e := range ents {
		if strings.HasSuffix(e.Name(), ".open") {
			open = append(open, e.Name())
		} else {
			final = append(final, e.Name())
		}
	}
	return
}
