package main

import (
	"fmt"
	"time"

	"github.com/internetarchive/Zeno/internal/pkg/reactor"
	"github.com/internetarchive/Zeno/pkg/models"
	"github.com/internetarchive/Zeno/verifharness/vh"
)

// c12bulk: the token rule at the sizes an operator can configure (one seed per token, up to tens of thousands), and
// with feedback objects that are not the inserted object (the reactor's API identifies a seed by its ID). One
// sequential scenario per token count; the numbers are recorded in one "bulk" event each and judged by C12B_Mon.
//
//	fill      max inserts with a reader on the output: all accepted, all delivered
//	extra     one more insert: must NOT be accepted while all tokens are taken (it waits; given up after 300 ms)
//	feedback  the reader stops; every tracked seed is fed back (every second one as a fresh object with the same ID):
//	          no call may block, no token is taken
//	drain     the reader resumes: every fed-back seed is delivered
//	finish    every seed is finished through the object that was inserted; the tokens return; the waiting insert, if it is
//	          still waiting, is accepted now
//
// usage: unit-verif c12bulk <out> <max> [<max> ...]
func init() { drivers["c12bulk"] = c12bulk }

func c12bulk(args []string) error {
	if len(args) < 2 {
		return fmt.Errorf("usage: c12bulk <out> <max>...")
	}
	tr, err := vh.NewTracer(args[0])
	if err != nil {
		return err
	}
	defer tr.Close()
	vh.InitConfig("c12bulk", nil)
	timed := func(f func() error, d time.Duration) (string, bool) {
		done := make(chan string, 1)
		go func() { done <- c12res(f()) }()
		select {
		case r := <-done:
			return r, true
		case <-time.After(d):
			return "", false
		}
	}
	for sc, a := range args[1:] {
		var max int
		fmt.Sscan(a, &max)
		out := make(chan *models.Item)
		if err := reactor.Start(max, out); err != nil {
			return err
		}
		ev := map[string]any{"ev": "bulk", "sc": sc + 1, "max": max}
		reading := make(chan bool)
		delivered := make(chan int)
		go func() { // the reader: counts deliveries while switched on
			n, on := 0, true
			for {
				if on {
					select {
					case <-out:
						n++
					case v, ok := <-reading:
						if !ok {
							return
						}
						on = v
						delivered <- n
						n = 0
					}
				} else {
					v, ok := <-reading
					if !ok {
						return
					}
					on = v
					delivered <- n
					n = 0
				}
			}
		}()
		settle := func(want func() bool) {
			for i := 0; i < 500 && !want(); i++ {
				time.Sleep(10 * time.Millisecond)
			}
		}
		items := make([]*models.Item, max)
		accepted, insStuck := 0, 0
		for i := range items {
			items[i] = c12item(fmt.Sprintf("b%d-%d", sc, i))
			r, ok := timed(func() error { return reactor.ReceiveInsert(items[i]) }, 4*time.Second)
			if !ok {
				insStuck++
				break
			}
			if r == "nil" {
				accepted++
			}
		}
		ev["accepted"], ev["insert_stuck"] = accepted, insStuck
		// one more than there are tokens
		extra := c12item(fmt.Sprintf("b%d-extra", sc))
		extraDone := make(chan string, 1)
		go func() { extraDone <- c12res(reactor.ReceiveInsert(extra)) }()
		extraEarly := false
		select {
		case <-extraDone:
			extraEarly = true
		case <-time.After(300 * time.Millisecond):
		}
		ev["extra_accepted_while_full"] = extraEarly
		settle(func() bool { return len(reactor.GetStateTable()) >= accepted })
		fill := 0
		for i := 0; i < 200 && fill < accepted; i++ { // bounded wait for the deliveries (10 s)
			reading <- true
			fill += <-delivered
			if fill < accepted {
				time.Sleep(50 * time.Millisecond)
			}
		}
		reading <- false
		fill += <-delivered
		ev["delivered_fill"] = fill
		ev["tracked_full"], ev["tokens_full"] = len(reactor.GetStateTable()), reactor.TokensInUseForVerif()
		// feedback without a reader
		fedOK, fedStuck, fedErr := 0, 0, 0
		for i, it := range items {
			obj := it
			if i%2 == 1 {
				obj = c12item(it.GetID()) // another object for the same seed
			}
			r, ok := timed(func() error { return reactor.ReceiveFeedback(obj) }, 2*time.Second)
			switch {
			case !ok:
				fedStuck++
			case r == "nil":
				fedOK++
			default:
				fedErr++
			}
			if fedStuck > 0 {
				break
			}
		}
		ev["fed_ok"], ev["fed_stuck"], ev["fed_err"] = fedOK, fedStuck, fedErr
		ev["tracked_fed"], ev["tokens_fed"] = len(reactor.GetStateTable()), reactor.TokensInUseForVerif()
		reading <- true
		<-delivered
		settleN := 0
		for i := 0; i < 200 && settleN < fedOK; i++ { // bounded wait for the deliveries (10 s)
			time.Sleep(50 * time.Millisecond)
			reading <- true
			settleN += <-delivered
		}
		time.Sleep(100 * time.Millisecond) // anything delivered beyond that is counted too
		reading <- true
		settleN += <-delivered
		ev["delivered_fed"] = settleN
		finOK, finStuck, finErr := 0, 0, 0
		for _, it := range items {
			r, ok := timed(func() error { return reactor.MarkAsFinished(it) }, 2*time.Second)
			switch {
			case !ok:
				finStuck++
			case r == "nil":
				finOK++
			default:
				finErr++
			}
			if finStuck > 0 {
				break
			}
		}
		ev["fin_ok"], ev["fin_stuck"], ev["fin_err"] = finOK, finStuck, finErr
		extraLate := "pending"
		if !extraEarly {
			select {
			case r := <-extraDone:
				extraLate = r
			case <-time.After(4 * time.Second):
			}
		}
		ev["extra_after_finish"] = extraLate
		settle(func() bool { return len(reactor.GetStateTable()) <= 1 })
		ev["tracked_end"], ev["tokens_end"] = len(reactor.GetStateTable()), reactor.TokensInUseForVerif()
		if fedStuck+finStuck+insStuck > 0 {
			tr.Emit(ev)
			return nil // the reactor cannot be stopped cleanly any more; what was measured is judged
		}
		timed(func() error { return reactor.MarkAsFinished(extra) }, 2*time.Second)
		close(reading)
		reactor.Freeze()
		reactor.Stop()
		ev["tokens_stopped"] = reactor.TokensInUseForVerif()
		tr.Emit(ev)
	}
	return nil
}
