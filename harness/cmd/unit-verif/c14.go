package main

import (
	"context"
	"fmt"
	"sync"
	"sync/atomic"
	"time"

	"github.com/internetarchive/Zeno/internal/pkg/controler/pause"
	"github.com/internetarchive/Zeno/verifharness/vh"
)

// c14: bounded scripts of pause / resume calls from two independent controllers against the real
// pause manager, with stage-shaped workers (select{ctx, PauseCh, work}; on a pause signal block on
// ResumeCh), late subscribers, worker exit and shutdown. Every call runs under a watchdog.
//
// usage: unit-verif c14 <out-trace.ndjson> <n-scenarios>
func init() { drivers["c14"] = c14 }

func c14(args []string) error {
	if len(args) != 2 {
		return fmt.Errorf("usage: c14 <out> <n>")
	}
	var n int
	fmt.Sscan(args[1], &n)
	tr, err := vh.NewTracer(args[0])
	if err != nil {
		return err
	}
	defer tr.Close()
	tr.Sync = true
	tr.Stamp = true
	vh.InitConfig("c14", nil)

	for sc := 1; sc <= n; sc++ {
		rng := vh.Rand(int64(1400 + sc))
		pause.ResetForVerif()
		nW := 1 + rng.Intn(3)
		late := rng.Intn(4) == 0
		kind := []string{"sequential", "concurrent", "unmatched", "overlap"}[rng.Intn(4)]
		tr.Emit(map[string]any{"ev": "start", "sc": sc, "workers": nW, "late": late, "kind": kind})

		ctx, cancel := context.WithCancel(context.Background())
		workCh := make(chan int)
		var wstate sync.Map // worker -> "idle" | "acked" | "exited"
		var wg sync.WaitGroup
		startWorker := func(w string) {
			wg.Add(1)
			go func() {
				defer wg.Done()
				wrng := vh.Rand(int64(sc*1000) + int64(len(w)) + int64(w[len(w)-1]))
				chans := pause.Subscribe()
				wstate.Store(w, "idle")
				tr.Emit(map[string]any{"ev": "sub", "sc": sc, "w": w})
				defer func() {
					pause.Unsubscribe(chans)
					wstate.Store(w, "exited")
					tr.Emit(map[string]any{"ev": "exit", "sc": sc, "w": w})
				}()
				for {
					select {
					case <-ctx.Done():
						return
					case <-chans.PauseCh:
						wstate.Store(w, "acked")
						tr.Emit(map[string]any{"ev": "ack", "sc": sc, "w": w})
						select {
						case chans.ResumeCh <- struct{}{}:
						case <-ctx.Done():
							return
						}
						wstate.Store(w, "idle")
						tr.Emit(map[string]any{"ev": "woken", "sc": sc, "w": w})
					case <-workCh:
						tr.Emit(map[string]any{"ev": "take", "sc": sc, "w": w})
						time.Sleep(time.Duration(1000+wrng.Intn(2000)) * time.Microsecond)
					}
				}
			}()
		}
		for w := 1; w <= nW; w++ {
			if late && w == nW {
				continue
			}
			startWorker(fmt.Sprintf("w%d", w))
		}
		// work feeder: offers work all the time
		feedCtx, feedCancel := context.WithCancel(context.Background())
		var feedWg sync.WaitGroup
		var feedOn atomic.Bool
		feedOn.Store(true)
		feedWg.Add(1)
		go func() {
			defer feedWg.Done()
			for {
				if !feedOn.Load() {
					select {
					case <-feedCtx.Done():
						return
					case <-time.After(500 * time.Microsecond):
					}
					continue
				}
				select {
				case <-feedCtx.Done():
					return
				case workCh <- 1:
				case <-time.After(2 * time.Millisecond):
				}
			}
		}()

		var stuck atomic.Bool
		call := func(c, op string) {
			if stuck.Load() {
				return
			}
			tr.Emit(map[string]any{"ev": "call", "sc": sc, "c": c, "op": op})
			done := make(chan struct{})
			go func() {
				if op == "pause" {
					pause.Pause("verif")
				} else {
					pause.Resume()
				}
				close(done)
			}()
			select {
			case <-done:
				tr.Emit(map[string]any{"ev": "ret", "sc": sc, "c": c, "op": op})
			case <-time.After(1500 * time.Millisecond):
				stuck.Store(true)
				tr.Emit(map[string]any{"ev": "stuck", "sc": sc, "c": c, "op": op})
			}
		}
		snap := func(exp string) {
			if stuck.Load() {
				return
			}
			// quiescent point: no new work is offered, so every worker comes back to its select and
			// sees the pause signal if there is one (with work always ready, Go's select may keep
			// choosing the work case, which the statement allows until the worker has acknowledged)
			feedOn.Store(false)
			// wait (bounded) until the workers have settled: timers in this sandbox can fire tens of
			// milliseconds late, so a fixed sleep is not a quiescence criterion
			var ws map[string]string
			for i := 0; i < 200; i++ {
				time.Sleep(5 * time.Millisecond)
				ws = map[string]string{}
				wstate.Range(func(k, v any) bool { ws[k.(string)] = v.(string); return true })
				p := pause.IsPaused()
				settled := i >= 3
				for _, st := range ws {
					if st == "exited" {
						continue
					}
					if p != (st == "acked") {
						settled = false
					}
				}
				if settled {
					break
				}
			}
			tr.Emit(map[string]any{"ev": "snap", "sc": sc, "paused": pause.IsPaused(), "exp": exp, "ws": ws})
			feedOn.Store(true)
		}
		time.Sleep(2 * time.Millisecond)

		switch kind {
		case "sequential": // one controller after the other, expected state known
			last := "false"
			for k := 0; k < 3+rng.Intn(4); k++ {
				c := []string{"c1", "c2"}[rng.Intn(2)]
				if last == "false" || rng.Intn(4) == 0 {
					call(c, "pause")
					last = "true"
				} else {
					call(c, "resume")
					last = "false"
				}
				if late && k == 1 {
					startWorker(fmt.Sprintf("w%d", nW))
					time.Sleep(time.Millisecond)
				}
				snap(last)
			}
		case "unmatched": // repeated and unmatched calls
			ops := []string{"resume", "pause", "pause", "resume", "resume", "pause", "resume"}
			off := rng.Intn(3)
			last := "false"
			for k := off; k < len(ops); k++ {
				call([]string{"c1", "c2"}[rng.Intn(2)], ops[k])
				if ops[k] == "pause" {
					last = "true"
				} else {
					last = "false"
				}
				snap(last)
			}
		case "overlap": // two watchdog-like controllers, each with its own idea of "I paused"
			call("c1", "pause")
			call("c2", "pause")
			snap("true")
			call("c1", "resume")
			snap("false")
			call("c2", "resume")
			snap("false")
			if late {
				startWorker(fmt.Sprintf("w%d", nW))
			}
			call("c2", "pause")
			snap("true")
			call("c1", "resume")
			snap("false")
		case "concurrent": // both controllers at once
			for round := 0; round < 3; round++ {
				var cw sync.WaitGroup
				for _, c := range []string{"c1", "c2"} {
					cw.Add(1)
					ops := []string{"pause", "resume"}
					if rng.Intn(2) == 0 {
						ops = []string{"resume", "pause", "resume"}
					}
					go func(c string, ops []string) {
						defer cw.Done()
						for _, op := range ops {
							call(c, op)
						}
					}(c, ops)
				}
				cw.Wait()
				if late && round == 0 {
					startWorker(fmt.Sprintf("w%d", nW))
				}
				snap("any")
			}
			call("c1", "resume")
			snap("false")
		}
		// shutdown, possibly while paused
		if rng.Intn(2) == 0 && !stuck.Load() {
			call("c1", "pause")
			snap("true")
		}
		tr.Emit(map[string]any{"ev": "stop", "sc": sc})
		cancel()
		feedCancel()
		wdone := make(chan struct{})
		go func() { wg.Wait(); close(wdone) }()
		select {
		case <-wdone:
		case <-time.After(1500 * time.Millisecond):
			tr.Emit(map[string]any{"ev": "wstuck", "sc": sc})
		}
		feedWg.Wait()
		// a resume after everybody left must return as well
		if !stuck.Load() {
			call("c2", "resume")
		}
		tr.Emit(map[string]any{"ev": "end", "sc": sc})
	}

	// ---- two stages under back-pressure: a first-stage worker that was in the middle of an item when the pause came
	// is blocked sending to the (full) channel of the second stage, whose workers have already acknowledged.  It can
	// acknowledge only after a second-stage worker was woken - whatever order Resume reads its subscribers in.
	for k := 0; k < 6+n/8; k++ {
		sc := n + 1 + k
		pause.ResetForVerif()
		tr.Emit(map[string]any{"ev": "start", "sc": sc, "workers": 4, "late": false, "kind": "chain"})
		ctx, cancel := context.WithCancel(context.Background())
		link := make(chan int, 1)
		var wg sync.WaitGroup
		worker := func(w string, in <-chan int, out chan<- int, cost time.Duration) {
			wg.Add(1)
			go func() {
				defer wg.Done()
				chans := pause.Subscribe()
				tr.Emit(map[string]any{"ev": "sub", "sc": sc, "w": w})
				defer func() {
					pause.Unsubscribe(chans)
					tr.Emit(map[string]any{"ev": "exit", "sc": sc, "w": w})
				}()
				for {
					select {
					case <-ctx.Done():
						return
					case <-chans.PauseCh:
						tr.Emit(map[string]any{"ev": "ack", "sc": sc, "w": w})
						select {
						case chans.ResumeCh <- struct{}{}:
						case <-ctx.Done():
							return
						}
						tr.Emit(map[string]any{"ev": "woken", "sc": sc, "w": w})
					case x := <-in:
						tr.Emit(map[string]any{"ev": "take", "sc": sc, "w": w})
						time.Sleep(cost)
						if out != nil {
							select {
							case <-ctx.Done():
								return
							case out <- x:
							}
						}
					}
				}
			}()
		}
		src := make(chan int)
		worker("w1", src, link, 300*time.Microsecond)
		worker("w2", src, link, 300*time.Microsecond)
		worker("w3", link, nil, 2*time.Millisecond)
		worker("w4", link, nil, 2*time.Millisecond)
		feedCtx, feedCancel := context.WithCancel(context.Background())
		go func() {
			for {
				select {
				case <-feedCtx.Done():
					return
				case src <- 1:
				}
			}
		}()
		stuck := false
		call := func(c, op string) {
			if stuck {
				return
			}
			tr.Emit(map[string]any{"ev": "call", "sc": sc, "c": c, "op": op})
			done := make(chan struct{})
			go func() {
				if op == "pause" {
					pause.Pause("verif")
				} else {
					pause.Resume()
				}
				close(done)
			}()
			select {
			case <-done:
				tr.Emit(map[string]any{"ev": "ret", "sc": sc, "c": c, "op": op})
			case <-time.After(1500 * time.Millisecond):
				stuck = true
				tr.Emit(map[string]any{"ev": "stuck", "sc": sc, "c": c, "op": op})
			}
		}
		for round := 0; round < 4; round++ {
			time.Sleep(8 * time.Millisecond)
			call("c1", "pause")
			time.Sleep(15 * time.Millisecond)
			call("c1", "resume")
		}
		tr.Emit(map[string]any{"ev": "stop", "sc": sc})
		cancel()
		feedCancel()
		wdone := make(chan struct{})
		go func() { wg.Wait(); close(wdone) }()
		select {
		case <-wdone:
		case <-time.After(1500 * time.Millisecond):
			tr.Emit(map[string]any{"ev": "wstuck", "sc": sc})
		}
		tr.Emit(map[string]any{"ev": "end", "sc": sc})
	}

	// ---- a worker in the middle of a LONG item (6.5 s: a large download) when the pause and the resume come: Resume has to
	// wait for it (it still holds the pause signal), and afterwards every worker takes work again
	{
		sc := n + 100
		pause.ResetForVerif()
		tr.Emit(map[string]any{"ev": "start", "sc": sc, "workers": 2, "late": false, "kind": "longitem"})
		ctx, cancel := context.WithCancel(context.Background())
		work := make(chan time.Duration)
		var wstate sync.Map
		var wg sync.WaitGroup
		for _, w := range []string{"w1", "w2"} {
			wg.Add(1)
			go func(w string) {
				defer wg.Done()
				chans := pause.Subscribe()
				wstate.Store(w, "idle")
				tr.Emit(map[string]any{"ev": "sub", "sc": sc, "w": w})
				defer func() {
					pause.Unsubscribe(chans)
					wstate.Store(w, "exited")
					tr.Emit(map[string]any{"ev": "exit", "sc": sc, "w": w})
				}()
				for {
					select {
					case <-ctx.Done():
						return
					case <-chans.PauseCh:
						wstate.Store(w, "acked")
						tr.Emit(map[string]any{"ev": "ack", "sc": sc, "w": w})
						select {
						case chans.ResumeCh <- struct{}{}:
						case <-ctx.Done():
							return
						}
						wstate.Store(w, "idle")
						tr.Emit(map[string]any{"ev": "woken", "sc": sc, "w": w})
					case d := <-work:
						tr.Emit(map[string]any{"ev": "take", "sc": sc, "w": w})
						time.Sleep(d)
					}
				}
			}(w)
		}
		time.Sleep(20 * time.Millisecond)
		work <- 6500 * time.Millisecond // one of the two is busy from now on
		call := func(op string, limit time.Duration) bool {
			tr.Emit(map[string]any{"ev": "call", "sc": sc, "c": "c1", "op": op})
			done := make(chan struct{})
			go func() {
				if op == "pause" {
					pause.Pause("verif")
				} else {
					pause.Resume()
				}
				close(done)
			}()
			select {
			case <-done:
				tr.Emit(map[string]any{"ev": "ret", "sc": sc, "c": "c1", "op": op})
				return true
			case <-time.After(limit):
				tr.Emit(map[string]any{"ev": "stuck", "sc": sc, "c": "c1", "op": op})
				return false
			}
		}
		ok := call("pause", 1500*time.Millisecond)
		time.Sleep(200 * time.Millisecond)
		ok = ok && call("resume", 15*time.Second) // returns once the busy worker has come back and been woken
		if ok {
			// both workers must take work again: offer items for a while, then look at the workers
			deadline := time.Now().Add(2 * time.Second)
			for time.Now().Before(deadline) {
				select {
				case work <- time.Millisecond:
				case <-time.After(20 * time.Millisecond):
				}
			}
			ws := map[string]string{}
			for i := 0; i < 200; i++ {
				time.Sleep(5 * time.Millisecond)
				ws = map[string]string{}
				wstate.Range(func(k, v any) bool { ws[k.(string)] = v.(string); return true })
				if ws["w1"] == "idle" && ws["w2"] == "idle" && i >= 3 {
					break
				}
			}
			tr.Emit(map[string]any{"ev": "snap", "sc": sc, "paused": pause.IsPaused(), "exp": "false", "ws": ws})
		}
		tr.Emit(map[string]any{"ev": "stop", "sc": sc})
		cancel()
		wdone := make(chan struct{})
		go func() { wg.Wait(); close(wdone) }()
		select {
		case <-wdone:
		case <-time.After(8 * time.Second):
			tr.Emit(map[string]any{"ev": "wstuck", "sc": sc})
		}
		tr.Emit(map[string]any{"ev": "end", "sc": sc})
	}
	return nil
}
