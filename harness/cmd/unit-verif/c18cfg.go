package main

import (
	"fmt"
	"io"
	"log/slog"
	"os"

	"github.com/internetarchive/Zeno/internal/pkg/config"
	"github.com/spf13/pflag"
)

// c18cfg: what the crawler takes as the operator's --min-space-required. The flag is declared and bound
// the way the command does it (cmd/get.go declares it, the root command's PersistentPreRunE calls
// config.BindFlags and config.InitConfig), one value per process (the configuration is built once).
//
// usage: unit-verif c18cfg <out-trace.ndjson> <value | none>
func init() { drivers["c18cfg"] = c18cfg }

func c18cfg(args []string) error {
	if len(args) != 2 {
		return fmt.Errorf("usage: c18cfg <out> <value|none>")
	}
	os.Setenv("HOME", os.TempDir())
	slog.SetDefault(slog.New(slog.NewTextHandler(io.Discard, nil)))
	fs := pflag.NewFlagSet("get", pflag.ContinueOnError)
	fs.Float64("min-space-required", 0, "Minimum space required in GB to continue the crawl.")
	fs.Int("max-hops", 0, "")
	fs.Int("hops", 0, "")
	fs.Int("max-concurrent-assets", 1, "")
	fs.Uint("ca", 8, "")
	argv := []string{}
	given := 0.0
	if args[1] != "none" {
		argv = []string{"--min-space-required", args[1]}
		fmt.Sscan(args[1], &given)
	}
	if err := fs.Parse(argv); err != nil {
		return err
	}
	config.BindFlags(fs)
	if err := config.InitConfig(); err != nil {
		return err
	}
	f, err := os.OpenFile(args[0], os.O_CREATE|os.O_WRONLY|os.O_APPEND, 0644)
	if err != nil {
		return err
	}
	defer f.Close()
	// milli-GiB integers: the monitor compares exactly
	fmt.Fprintf(f, "{\"ev\":\"cfg\",\"text\":%q,\"given_milli\":%d,\"effective_milli\":%d}\n", args[1], int64(given*1000+0.5), int64(config.Get().MinSpaceRequired*1000+0.5))
	return nil
}
