package main

import (
	"context"
	"fmt"
	"sync"
	"time"

	"github.com/internetarchive/Zeno/internal/pkg/archiver/ratelimiter"
	"github.com/internetarchive/Zeno/verifharness/vh"
)

// c13mgr: the per-host table (BucketManager) in real time.
//
//	A. a host that keeps being asked for stays in the table across clean-up rounds: the penalty imposed on
//	   it is honoured by every later waiter (waiters arrive more often than the clean-up period);
//	B. more hosts than the table may hold, most of them penalised: the table stays within its bound.
//
// usage: unit-verif c13mgr <out-trace.ndjson> <rounds>
func init() { drivers["c13mgr"] = c13mgr }

func c13mgr(args []string) error {
	if len(args) != 2 {
		return fmt.Errorf("usage: c13mgr <out> <rounds>")
	}
	var rounds int
	fmt.Sscan(args[1], &rounds)
	tr, err := vh.NewTracer(args[0])
	if err != nil {
		return err
	}
	defer tr.Close()
	tr.Sync = true
	r := vh.Rand(1313)
	codes := []int{429, 403, 408, 425}

	// ---- A
	var wgA sync.WaitGroup
	for k := 0; k < rounds; k++ {
		wgA.Add(1)
		go func(k int, code int, gap time.Duration) {
			defer wgA.Done()
			ctx, cancel := context.WithCancel(context.Background())
			defer cancel()
			bm := ratelimiter.NewBucketManager(ctx, 10, 2, 50, 1000*time.Millisecond)
			defer bm.Close()
			host := fmt.Sprintf("busy%d.example", k)
			sc := fmt.Sprintf("A%d", k)
			t0 := time.Now()
			ms := func() int64 { return time.Since(t0).Milliseconds() }
			tr.Emit(map[string]any{"ev": "mgr.new", "sc": sc, "max": 10, "cleanup_ms": 1000})
			bm.Wait(host)
			tr.Emit(map[string]any{"ev": "mgr.release", "sc": sc, "host": host, "t": ms()})
			tr.Emit(map[string]any{"ev": "mgr.fail", "sc": sc, "host": host, "t": ms(), "code": code}) // stamped before the call: the penalty cannot start earlier
			bm.AdjustOnFailure(host, code)
			stop := time.Now().Add(2600 * time.Millisecond)
			for time.Now().Before(stop) {
				go func() {
					bm.Wait(host)
					tr.Emit(map[string]any{"ev": "mgr.release", "sc": sc, "host": host, "t": ms()})
				}()
				time.Sleep(gap)
			}
			tr.Emit(map[string]any{"ev": "mgr.end", "sc": sc, "t": ms()})
		}(k, codes[r.Intn(len(codes))], time.Duration(30+r.Intn(40))*time.Millisecond)
	}
	wgA.Wait()

	// ---- B
	for k := 0; k < rounds; k++ {
		ctx, cancel := context.WithCancel(context.Background())
		max := 3 + r.Intn(8)
		bm := ratelimiter.NewBucketManager(ctx, max, 1, 200, time.Hour)
		sc := fmt.Sprintf("B%d", k)
		tr.Emit(map[string]any{"ev": "mgr.new", "sc": sc, "max": max, "cleanup_ms": 3600000})
		for i := 0; i < 5*max; i++ {
			host := fmt.Sprintf("h%d.example", i)
			bm.Wait(host)
			switch r.Intn(4) {
			case 0:
				bm.OnSuccess(host)
			case 1:
				bm.AdjustOnFailure(host, 503)
			default:
				bm.AdjustOnFailure(host, codes[r.Intn(len(codes))])
			}
			tr.Emit(map[string]any{"ev": "mgr.count", "sc": sc, "n": bm.BucketCountForVerif(), "max": max, "hosts": i + 1})
		}
		bm.Close()
		cancel()
	}
	return nil
}
