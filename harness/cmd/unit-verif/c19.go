package main

import (
	"fmt"
	"math/rand"
	"net/http"
	"net/url"
	"os"
	"sort"
	"strconv"
	"strings"

	"github.com/CorentinB/warc/pkg/spooledtempfile"
	"github.com/internetarchive/Zeno/internal/pkg/postprocessor/extractor"
	"github.com/internetarchive/Zeno/pkg/models"
	"github.com/internetarchive/Zeno/verifharness/vh"
)

// c19: walk simulated S3 buckets page by page through the real extractor.S3.
// The bucket server implements the listing semantics of specs/S3Walk.tla (keys are sequences of small
// integers, "1/2"; V2 with delimiter "/" and continuation tokens, legacy with markers). Every step
// logs the request, the page the server produced and the links the extractor returned.
//
// usage: unit-verif c19 <out-trace.ndjson> <n-random-buckets> <exhaustive-max-keys>
func init() { drivers["c19"] = c19s3 }

type s3entry struct {
	K  []int `json:"k"`
	CP bool  `json:"cp"`
}

func keyStr(k []int) string {
	p := make([]string, len(k))
	for i, c := range k {
		p[i] = strconv.Itoa(c)
	}
	return strings.Join(p, "/")
}
func parseKey(s string) []int {
	k := []int{}
	for _, p := range strings.Split(strings.Trim(s, "/"), "/") {
		if p == "" {
			continue
		}
		n, _ := strconv.Atoi(p)
		k = append(k, n)
	}
	return k
}

// How the components are spelled in the bucket (the model knows them as small numbers): plain names, names with
// percent signs, escapes and spaces, an EMPTY component (keys like "logs//app.log"), dot components.  S3 allows all of them.
var s3namings = [][]string{
	{"1", "2", "3"},
	{"a%2Fb.csv", "100%", "x y"},
	{"d", "é+q", ""},
	{".", "k", ".."},
	{"1", "", "%41"},
}
var s3names = s3namings[0]

func keyName(k []int) string {
	p := make([]string, len(k))
	for i, c := range k {
		p[i] = s3names[c-1]
	}
	return strings.Join(p, "/")
}

// parseName is the exact inverse of keyName (no trimming: an empty component is a component)
func parseName(s string) ([]int, bool) {
	k := []int{}
	for _, p := range strings.Split(s, "/") {
		found := false
		for i, n := range s3names {
			if n == p {
				k = append(k, i+1)
				found = true
			}
		}
		if !found {
			return nil, false
		}
	}
	return k, true
}
func parsePrefix(s string) []int {
	if s == "" {
		return []int{}
	}
	k, ok := parseName(strings.TrimSuffix(s, "/"))
	if !ok {
		return []int{99}
	}
	return k
}
func parseMarker(s string) []int {
	if s == "" {
		return []int{}
	}
	k, ok := parseName(s)
	if !ok {
		return []int{99}
	}
	return k
}

// a naming is usable for a bucket when no key would be spelled as the empty string
func namingOK(names []string, keys [][]int) bool {
	for _, k := range keys {
		all := true
		for _, c := range k {
			if names[c-1] != "" {
				all = false
			}
		}
		if all {
			return false
		}
	}
	return true
}
func lessKey(a, b []int) bool {
	for i := 0; i < len(a) && i < len(b); i++ {
		if a[i] != b[i] {
			return a[i] < b[i]
		}
	}
	return len(a) < len(b)
}
func eqKey(a, b []int) bool { return !lessKey(a, b) && !lessKey(b, a) }
func lessEntry(e, f s3entry) bool {
	if lessKey(e.K, f.K) {
		return true
	}
	return eqKey(e.K, f.K) && !e.CP && f.CP
}
func hasPrefix(k, p []int) bool {
	if len(k) <= len(p) {
		return false
	}
	for i := range p {
		if k[i] != p[i] {
			return false
		}
	}
	return true
}

type s3bucket struct {
	keys [][]int
	zero map[string]bool
}

type s3req struct {
	V2     bool    `json:"-"`
	Prefix []int   `json:"prefix"`
	Tok    s3entry `json:"tok"`
	Marker []int   `json:"marker"`
}

func (r s3req) id() string {
	return fmt.Sprintf("%v|%s|%s|%v|%s", r.V2, keyStr(r.Prefix), keyStr(r.Tok.K), r.Tok.CP, keyStr(r.Marker))
}

// serve produces the page for a request: entries in order, truncated flag.
func (b *s3bucket) serve(r s3req, n int) (page []s3entry, truncated bool) {
	var es []s3entry
	seen := map[string]bool{}
	if r.V2 {
		for _, k := range b.keys {
			if !hasPrefix(k, r.Prefix) {
				continue
			}
			e := s3entry{K: k}
			if len(k) > len(r.Prefix)+1 {
				e = s3entry{K: append([]int{}, k[:len(r.Prefix)+1]...), CP: true}
			}
			id := keyStr(e.K) + fmt.Sprint(e.CP)
			if !seen[id] {
				seen[id] = true
				es = append(es, e)
			}
		}
	} else {
		for _, k := range b.keys {
			es = append(es, s3entry{K: k})
		}
	}
	sort.Slice(es, func(i, j int) bool { return lessEntry(es[i], es[j]) })
	tok := r.Tok
	if !r.V2 {
		tok = s3entry{K: r.Marker}
	}
	var rest []s3entry
	for _, e := range es {
		if lessEntry(tok, e) {
			rest = append(rest, e)
		}
	}
	if len(rest) > n {
		return rest[:n], true
	}
	return rest, false
}

func tokStr(e s3entry) string {
	if e.CP {
		return "p:" + keyName(e.K)
	}
	return "k:" + keyName(e.K)
}
func parseTok(s string) s3entry {
	if s == "" {
		return s3entry{K: []int{}}
	}
	k, ok := parseName(s[2:]) // ("p:" alone is the prefix made of one empty component)
	if !ok {
		k = []int{99}
	}
	return s3entry{K: k, CP: strings.HasPrefix(s, "p:")}
}

const s3host = "bucket.s3.example.com"

func (r s3req) url() string {
	q := url.Values{}
	if r.V2 {
		q.Set("list-type", "2")
		q.Set("delimiter", "/")
		if len(r.Prefix) > 0 {
			q.Set("prefix", keyName(r.Prefix)+"/")
		}
		if len(r.Tok.K) > 0 {
			q.Set("continuation-token", tokStr(r.Tok))
		}
	} else if len(r.Marker) > 0 {
		q.Set("marker", keyName(r.Marker))
	}
	return "https://" + s3host + "/?" + q.Encode()
}

func (b *s3bucket) xml(r s3req, page []s3entry, truncated bool) string {
	var sb strings.Builder
	sb.WriteString(`<?xml version="1.0" encoding="UTF-8"?>` + "\n" + `<ListBucketResult xmlns="http://s3.amazonaws.com/doc/2006-03-01/"><Name>bucket</Name>`)
	sb.WriteString("<Prefix>" + keyName(r.Prefix) + "</Prefix><IsTruncated>" + strconv.FormatBool(truncated) + "</IsTruncated>")
	if truncated && r.V2 && len(page) > 0 {
		sb.WriteString("<NextContinuationToken>" + tokStr(page[len(page)-1]) + "</NextContinuationToken>")
	}
	for _, e := range page {
		if e.CP {
			sb.WriteString("<CommonPrefixes><Prefix>" + keyName(e.K) + "/</Prefix></CommonPrefixes>")
		} else {
			size := 100 + len(e.K)
			if b.zero[keyStr(e.K)] {
				size = 0
			}
			sb.WriteString("<Contents><Key>" + keyName(e.K) + "</Key><LastModified>2024-01-01T00:00:00.000Z</LastModified><Size>" + strconv.Itoa(size) + "</Size></Contents>")
		}
	}
	sb.WriteString("</ListBucketResult>")
	return sb.String()
}

func c19s3(args []string) error {
	if len(args) != 3 {
		return fmt.Errorf("usage: c19 <out> <nrandom> <exhaustive-max-keys>")
	}
	nrand, _ := strconv.Atoi(args[1])
	exh, _ := strconv.Atoi(args[2])
	tr, err := vh.NewTracer(args[0])
	if err != nil {
		return err
	}
	defer tr.Close()
	tmp, _ := os.MkdirTemp("", "verif-c19-")
	defer os.RemoveAll(tmp)
	walkNo := 0

	walk := func(b *s3bucket, v2 bool, n int) {
		walkNo++
		s3names = s3namings[walkNo%len(s3namings)]
		if !namingOK(s3names, b.keys) {
			s3names = s3namings[0]
		}
		zero := [][]int{}
		for _, k := range b.keys {
			if b.zero[keyStr(k)] {
				zero = append(zero, k)
			}
		}
		tr.Emit(map[string]any{"ev": "s3.start", "walk": walkNo, "v2": v2, "n": n, "bucket": b.keys, "zero": zero, "names": s3names})
		start := s3req{V2: v2, Prefix: []int{}, Tok: s3entry{K: []int{}}, Marker: []int{}}
		frontier := []s3req{start}
		visited := map[string]bool{}
		queued := map[string]bool{}
		steps := 0
		for len(frontier) > 0 && steps < 400 {
			req := frontier[0]
			frontier = frontier[1:]
			if visited[req.id()] {
				continue
			}
			visited[req.id()] = true
			steps++
			page, truncated := b.serve(req, n)
			// the real extractor on a real URL object
			u := &models.URL{Raw: req.url()}
			if err := u.Parse(); err != nil {
				panic(err)
			}
			httpReq, _ := http.NewRequest("GET", req.url(), nil)
			u.SetRequest(httpReq)
			u.SetResponse(&http.Response{StatusCode: 200, Header: http.Header{"Server": {"AmazonS3"}, "Content-Type": {"application/xml"}}})
			body := spooledtempfile.NewSpooledTempFile("verif", tmp, 1<<20, false, -1)
			body.Write([]byte(b.xml(req, page, truncated)))
			u.SetBody(body)
			u.RewindBody()
			links, xerr := extractor.S3(u)
			body.Close()
			var listings []s3req
			objects := [][]int{}
			other := []string{}
			for _, l := range links {
				pu, err := url.Parse(l.Raw)
				if err != nil || pu.Host != s3host {
					other = append(other, l.Raw)
					continue
				}
				if pu.Path == "/" || pu.Path == "" {
					q := pu.Query()
					nr := s3req{V2: q.Get("list-type") == "2", Prefix: parsePrefix(q.Get("prefix")), Tok: parseTok(q.Get("continuation-token")), Marker: parseMarker(q.Get("marker"))}
					listings = append(listings, nr)
					frontier = append(frontier, nr)
				} else {
					k, ok := parseName(strings.TrimPrefix(pu.Path, "/"))
					if !ok { // not the URL of any object of this bucket
						other = append(other, l.Raw)
						continue
					}
					objects = append(objects, k)
					queued[keyStr(k)] = true
				}
			}
			pentries := page
			if pentries == nil {
				pentries = []s3entry{}
			}
			ls := listings
			if ls == nil {
				ls = []s3req{}
			}
			ev := map[string]any{"ev": "s3.page", "walk": walkNo, "req": req, "v2": req.V2, "page": map[string]any{"entries": pentries, "truncated": truncated},
				"listings": ls, "objects": objects, "other": other}
			if xerr != nil {
				ev["err"] = xerr.Error()
			}
			tr.Emit(ev)
		}
		q := [][]int{}
		for k := range queued {
			q = append(q, parseKey(k))
		}
		sort.Slice(q, func(i, j int) bool { return lessKey(q[i], q[j]) })
		tr.Emit(map[string]any{"ev": "s3.end", "walk": walkNo, "queued": q, "pages": steps, "exhausted": len(frontier) == 0})
	}

	// every bucket with at most exh keys over components {1,2}, depth <= 3 (the domain TLC explores), each with
	// one seeded choice of zero-size objects and page size, both API versions
	var universe [][]int
	for a := 1; a <= 2; a++ {
		universe = append(universe, []int{a})
		for b := 1; b <= 2; b++ {
			universe = append(universe, []int{a, b})
			for c := 1; c <= 2; c++ {
				universe = append(universe, []int{a, b, c})
			}
		}
	}
	r := vh.Rand(19)
	var rec func(start int, cur [][]int)
	rec = func(start int, cur [][]int) {
		if len(cur) > 0 {
			bk := &s3bucket{keys: append([][]int{}, cur...), zero: map[string]bool{}}
			sort.Slice(bk.keys, func(i, j int) bool { return lessKey(bk.keys[i], bk.keys[j]) })
			for _, k := range bk.keys {
				if r.Intn(4) == 0 {
					bk.zero[keyStr(k)] = true
				}
			}
			walk(bk, true, 1+r.Intn(3))
			walk(bk, false, 1+r.Intn(3))
		}
		if len(cur) == exh {
			return
		}
		for i := start; i < len(universe); i++ {
			rec(i+1, append(cur, universe[i]))
		}
	}
	rec(0, nil)
	// random larger buckets
	for i := 0; i < nrand; i++ {
		rr := rand.New(rand.NewSource(vh.Seed()*7919 + int64(i)))
		bk := &s3bucket{zero: map[string]bool{}}
		seen := map[string]bool{}
		for k := 0; k < 3+rr.Intn(12); k++ {
			d := 1 + rr.Intn(3)
			key := []int{}
			for j := 0; j < d; j++ {
				key = append(key, 1+rr.Intn(3))
			}
			if !seen[keyStr(key)] {
				seen[keyStr(key)] = true
				bk.keys = append(bk.keys, key)
				if rr.Intn(5) == 0 {
					bk.zero[keyStr(key)] = true
				}
			}
		}
		sort.Slice(bk.keys, func(i, j int) bool { return lessKey(bk.keys[i], bk.keys[j]) })
		walk(bk, rr.Intn(3) > 0, 1+rr.Intn(4))
	}
	return nil
}
