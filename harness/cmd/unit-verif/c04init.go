package main

import (
	"database/sql"
	"fmt"
	"os"
	"path/filepath"

	_ "github.com/ncruces/go-sqlite3/driver"
	_ "github.com/ncruces/go-sqlite3/embed"

	"github.com/internetarchive/Zeno/internal/pkg/config"
	"github.com/internetarchive/Zeno/internal/pkg/source/lq"
	"github.com/internetarchive/Zeno/verifharness/vh"
)

// c04init: the restart step of the local queue on its own, with no time between the claim and the restart:
// rows are claimed (the consumer's own statement: status and timestamp) and lq.Init - what a restarted
// crawler runs first - is called at once, in the same process (a real process restart on this machine
// always takes longer than the one-second resolution of the row timestamps). Every row handed out before
// the restart must be FRESH afterwards, however recent its claim.
//
// usage: unit-verif c04init <out-trace.ndjson> <rounds>
func init() { drivers["c04init"] = c04init }

func c04init(args []string) error {
	if len(args) != 2 {
		return fmt.Errorf("usage: c04init <out> <rounds>")
	}
	var rounds int
	fmt.Sscan(args[1], &rounds)
	tr, err := vh.NewTracer(args[0])
	if err != nil {
		return err
	}
	defer tr.Close()
	dir, _ := os.MkdirTemp("", "verif-c04init-")
	defer os.RemoveAll(dir)
	repo := os.Getenv("VERIF_REPO")
	if repo == "" {
		repo = "/repo"
	}
	ddl, err := os.ReadFile(filepath.Join(repo, "internal/pkg/source/lq/schema.sql"))
	if err != nil {
		return err
	}
	for k := 0; k < rounds; k++ {
		job := filepath.Join(dir, fmt.Sprintf("job%d", k))
		os.MkdirAll(job, 0755)
		vh.InitConfig("c04init", func(c *config.Config) { c.JobPath = job })
		config.Get().JobPath = job
		db, err := sql.Open("sqlite3", "file:"+filepath.Join(job, "lq.db"))
		if err != nil {
			return err
		}
		if _, err := db.Exec(string(ddl)); err != nil {
			return err
		}
		var claimed []string
		for i := 0; i < 6; i++ {
			id := fmt.Sprintf("u%d", i)
			if _, err := db.Exec("INSERT INTO urls (id, value, via, hops) VALUES (?, ?, '', 0)", id, "http://example.com/"+id); err != nil {
				return err
			}
			if i%2 == 0 { // handed out just now (the statement of ClaimThisURL)
				if _, err := db.Exec("UPDATE urls SET status = 'CLAIMED', timestamp = strftime('%s', 'now') WHERE id = ?", id); err != nil {
					return err
				}
				claimed = append(claimed, id)
			}
		}
		db.Close()
		c, err := lq.Init("c04init")
		ev := map[string]any{"ev": "init.reset", "round": k, "claimed": claimed}
		if err != nil {
			ev["err"] = err.Error()
		}
		_ = c
		db, _ = sql.Open("sqlite3", "file:"+filepath.Join(job, "lq.db"))
		rows, qerr := db.Query("SELECT id, status FROM urls ORDER BY id")
		still := []string{}
		n := 0
		if qerr == nil {
			for rows.Next() {
				var id, st string
				rows.Scan(&id, &st)
				n++
				if st == "CLAIMED" {
					still = append(still, id)
				}
			}
			rows.Close()
		}
		db.Close()
		ev["rows"], ev["still_claimed"] = n, still
		tr.Emit(ev)
	}
	return nil
}
