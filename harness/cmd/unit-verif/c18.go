package main

import (
	"fmt"
	"math/big"
	"os"
	"sort"
	"sync"
	"syscall"
	"time"

	"github.com/internetarchive/Zeno/internal/pkg/config"
	"github.com/internetarchive/Zeno/internal/pkg/controler/pause"
	"github.com/internetarchive/Zeno/internal/pkg/controler/watchers"
	"github.com/internetarchive/Zeno/internal/pkg/verifhook"
	"github.com/internetarchive/Zeno/verifharness/vh"
)

// c18: drive the real low-disk decision (checkThreshold, CheckDiskUsage, WatchDiskSpace) and
// record every decision with the byte counts split as q*2^20+r so that TLC can redo the
// arithmetic exactly.
//
// usage: unit-verif c18 <out-trace.ndjson> <n-random-series>
func init() { drivers["c18"] = c18 }

const mib = 1 << 20
const gib = uint64(1) << 30

func split(n uint64) (uint64, uint64) { return n / mib, n % mib }

// exactThr returns floor(msr * 2^30) and whether msr * 2^30 has a fractional part, exactly.
func exactThr(msr float64) (uint64, bool) {
	r := new(big.Rat).SetFloat64(msr)
	r.Mul(r, new(big.Rat).SetInt(new(big.Int).Lsh(big.NewInt(1), 30)))
	q := new(big.Int).Quo(r.Num(), r.Denom())
	frac := new(big.Int).Mul(q, r.Denom()).Cmp(r.Num()) != 0
	return q.Uint64(), frac
}

func c18(args []string) error {
	if len(args) != 2 {
		return fmt.Errorf("usage: c18 <out> <n>")
	}
	var n int
	fmt.Sscan(args[1], &n)
	tr, err := vh.NewTracer(args[0])
	if err != nil {
		return err
	}
	defer tr.Close()
	rng := vh.Rand(18)
	ser := 0

	emit := func(cls string, total, free uint64, msr float64, refused bool) {
		tq, trr := split(total)
		fq, fr := split(free)
		ev := map[string]any{"ev": "thr", "cls": cls, "ser": ser, "tq": tq, "tr": trr, "fq": fq, "fr": fr,
			"msr": msr > 0, "msrv": msr, "hq": 0, "hr": 0, "hf": false, "refused": refused}
		if msr > 0 {
			ti, frac := exactThr(msr)
			hq, hr := split(ti)
			ev["hq"], ev["hr"], ev["hf"] = hq, hr, frac
		}
		tr.Emit(ev)
	}

	series := func(cls string, total uint64, msr float64) {
		ser++
		// candidate free values: around the threshold (both roundings), 0, total, random
		var thrF, thrC uint64
		if msr > 0 {
			ti, frac := exactThr(msr)
			thrF, thrC = ti, ti
			if frac {
				thrC = ti + 1
			}
		} else if total <= 256*gib {
			num := new(big.Int).Mul(big.NewInt(25), new(big.Int).SetUint64(total))
			q, m := new(big.Int).QuoRem(num, big.NewInt(128), new(big.Int))
			thrF, thrC = q.Uint64(), q.Uint64()
			if m.Sign() != 0 {
				thrC++
			}
		} else {
			thrF, thrC = 50*gib, 50*gib
		}
		set := map[uint64]bool{0: true, total: true}
		for _, b := range []uint64{thrF, thrC} {
			for d := uint64(0); d <= 2; d++ {
				set[b+d] = true
				if b >= d {
					set[b-d] = true
				}
			}
		}
		for i := 0; i < 3; i++ {
			set[uint64(rng.Int63n(int64(total)+1))] = true
		}
		var frees []uint64
		for f := range set {
			if f <= total || msr > 0 {
				if f < (uint64(1) << 43) {
					frees = append(frees, f)
				}
			}
		}
		sort.Slice(frees, func(i, j int) bool { return frees[i] < frees[j] })
		for _, f := range frees {
			err := watchers.CheckThresholdForVerif(total, f, msr)
			emit(cls, total, f, msr, err != nil)
		}
	}

	msrs := []float64{0, 0, 1, 0.1, 0.5, 20, 50.5, 1.0 / 1024, 3.3, 0.25, 7.75, 100.000001}
	totals := []uint64{256 * gib, 256*gib - 1, 256*gib + 1, 256*gib - 128, 256*gib + 128, 128 * gib, 1, 127, 128, 129,
		500 * gib, 1000*gib + 12345, 10 * gib, 10*gib + 77, 64*gib + 1, 2048 * gib, 255*gib + 5}
	for _, t := range totals {
		series("boundary-default", t, 0)
		for _, m := range msrs[2:] {
			series("boundary-msr", t, m)
		}
	}
	for i := 0; i < n; i++ {
		var t uint64
		switch rng.Intn(4) {
		case 0:
			t = uint64(rng.Int63n(int64(256 * gib)))
		case 1:
			t = 256*gib + uint64(rng.Int63n(int64(4096*gib)))
		case 2:
			t = 256*gib - uint64(rng.Int63n(4096)) + uint64(rng.Int63n(4096))
		default:
			t = uint64(rng.Int63n(int64(8 * gib)))
		}
		m := msrs[rng.Intn(len(msrs))]
		if rng.Intn(3) == 0 && m > 0 {
			m = rng.Float64() * 300
		}
		cls := "random-default"
		if m > 0 {
			cls = "random-msr"
		}
		series(cls, t, m)
	}

	// ---- start-up refusal against the real volume (CheckDiskUsage reads statfs + config)
	dir, _ := os.MkdirTemp("", "verif-c18-")
	defer os.RemoveAll(dir)
	c := vh.InitConfig("c18", nil)
	stat := func() (uint64, uint64) {
		var st syscall.Statfs_t
		if err := syscall.Statfs(dir, &st); err != nil {
			panic(err)
		}
		return st.Blocks * uint64(st.Bsize), st.Bavail * uint64(st.Bsize)
	}
	total, free := stat()
	freeG := float64(free) / float64(gib)
	for _, m := range []float64{freeG - 2, freeG + 2, freeG / 2, freeG * 2, 0.001} {
		if m <= 0 {
			continue
		}
		ser++
		_, f1 := stat()
		c.MinSpaceRequired = m
		err := watchers.CheckDiskUsage(dir)
		_, f2 := stat()
		ti, _ := exactThr(m)
		if (f1 < ti) != (f2 < ti) {
			continue // free space crossed the threshold while we were looking: not a usable sample
		}
		emit("statfs-startup", total, f2, m, err != nil)
	}

	// ---- pause-while-running: WatchDiskSpace with a short interval, threshold moved across the free space
	var mu sync.Mutex
	ticks := 0
	verifhook.Set(func(point string, a ...any) {
		if point != "watch.disk.tick" {
			return
		}
		mu.Lock()
		defer mu.Unlock()
		ticks++
		m := config.Get().MinSpaceRequired
		exp := "above" // every setting used below is either far above or far below the real free space
		if m > 1 {
			exp = "below"
		}
		tr.Emit(map[string]any{"ev": "watch", "below": a[0].(bool), "flag": a[1].(bool), "paused": pause.IsPaused(),
			"msrv": m, "exp": exp})
	})
	c.MinSpaceRequired = 0.001
	go watchers.WatchDiskSpace(dir, 20*time.Millisecond)
	waitTicks := func(k int) {
		mu.Lock()
		start := ticks
		mu.Unlock()
		for i := 0; i < 500; i++ {
			time.Sleep(10 * time.Millisecond)
			mu.Lock()
			d := ticks - start
			mu.Unlock()
			if d >= k {
				return
			}
		}
	}
	for _, m := range []float64{0.001, freeG + 1000, 0.001, freeG + 5, freeG + 6, 0.002, 0.001} {
		mu.Lock() // change the setting between two ticks, never inside one
		c.MinSpaceRequired = m
		mu.Unlock()
		waitTicks(3)
	}
	c.MinSpaceRequired = 0.001
	waitTicks(2)
	watchers.StopDiskWatcher()
	verifhook.Set(nil)
	return nil
}
