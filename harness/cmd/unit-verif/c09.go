package main

import (
	"fmt"
	"math/rand"
	"strings"

	"github.com/internetarchive/Zeno/internal/pkg/preprocessor"
	"github.com/internetarchive/Zeno/pkg/models"
	"github.com/internetarchive/Zeno/verifharness/vh"
)

// c09: URL canonicalisation. Inputs are built from tokens (so their structure is known by
// construction), rendered to text, normalised several times on fresh objects, and the output is cut
// back into tokens with a trivial splitter (the token alphabet never contains / ? & = # : @).
// Unstructured inputs (mutations, hand-written nasties) get the structure-free checks only.
//
// usage: unit-verif c09 <out-trace.ndjson> <n-structured> <n-mutated>
func init() { drivers["c09"] = c09 }

type c09url struct {
	Scheme string     `json:"scheme"`
	Host   string     `json:"host"`
	Port   string     `json:"port"`
	Path   []string   `json:"path"`
	Query  [][]string `json:"query"`
}
type c09ref struct {
	Kind   string     `json:"kind"`
	Scheme string     `json:"scheme"`
	Host   string     `json:"host"`
	Port   string     `json:"port"`
	Segs   []string   `json:"segs"`
	HasQ   bool       `json:"hasq"`
	Query  [][]string `json:"query"`
}

var c09hosts = []string{"example.com", "sub.example.org", "a.b.c.example.net", "www.site-1.example"}
var c09segs = []string{"a", "b", "cc", "x1", "img.png", "a.b", "index.html", "~u", "a-b", "A", "v2"}
var c09keys = []string{"k", "q", "a", "id", "k", "page"}
var c09vals = []string{"1", "v", "", "x.y", "2", "v", "%2541", "x%2By", "%26%3D", "100%25"} // the last ones: literal percent signs, plus, ampersand and equals inside a value, in their canonical escaping

func c09query(r *rand.Rand) [][]string {
	n := r.Intn(4)
	q := [][]string{}
	for i := 0; i < n; i++ {
		q = append(q, []string{c09keys[r.Intn(len(c09keys))], c09vals[r.Intn(len(c09vals))]})
	}
	return q
}
func c09renderQuery(r *rand.Rand, q [][]string) string {
	var parts []string
	for _, kv := range q {
		if kv[1] == "" && r.Intn(2) == 0 {
			parts = append(parts, kv[0])
		} else {
			parts = append(parts, kv[0]+"="+kv[1])
		}
	}
	return strings.Join(parts, "&")
}
func c09path(r *rand.Rand, dots bool, max int) []string {
	n := r.Intn(max + 1)
	p := []string{}
	for i := 0; i < n; i++ {
		switch k := r.Intn(12); {
		case dots && k == 0:
			p = append(p, ".")
		case dots && k <= 2:
			p = append(p, "..")
		case k == 3 && i == n-1:
			p = append(p, "") // trailing slash
		default:
			p = append(p, c09segs[r.Intn(len(c09segs))])
		}
	}
	return p
}
func c09hostport(host, port string) string {
	if port != "" {
		return host + ":" + port
	}
	return host
}

// tokenise an accepted canonical string
func c09tokens(s string) (c09url, bool) {
	var u c09url
	i := strings.Index(s, "://")
	if i < 0 {
		return u, false
	}
	u.Scheme = s[:i]
	rest := s[i+3:]
	if j := strings.Index(rest, "#"); j >= 0 {
		rest = rest[:j]
	}
	q := ""
	hasq := false
	if j := strings.Index(rest, "?"); j >= 0 {
		q, rest, hasq = rest[j+1:], rest[:j], true
	}
	hp := rest
	p := ""
	if j := strings.Index(rest, "/"); j >= 0 {
		hp, p = rest[:j], rest[j:]
	}
	if j := strings.LastIndex(hp, ":"); j >= 0 {
		u.Host, u.Port = hp[:j], hp[j+1:]
	} else {
		u.Host = hp
	}
	u.Path = []string{}
	if p != "" {
		u.Path = strings.Split(p, "/")[1:]
	}
	u.Query = [][]string{}
	if hasq && q != "" {
		for _, kv := range strings.Split(q, "&") {
			k, v, _ := strings.Cut(kv, "=")
			u.Query = append(u.Query, []string{k, v})
		}
	}
	return u, true
}

type c09result struct {
	out string
	err bool
	pan bool
}

func c09norm(input string, parent *models.URL) (res c09result) {
	defer func() {
		if r := recover(); r != nil {
			res = c09result{err: true, pan: true}
		}
	}()
	u := &models.URL{Raw: input}
	if err := preprocessor.NormalizeURL(u, parent); err != nil {
		return c09result{err: true}
	}
	return c09result{out: u.String()}
}

func c09parent(text string) *models.URL {
	if text == "" {
		return nil
	}
	p := &models.URL{Raw: text}
	if err := preprocessor.NormalizeURL(p, nil); err != nil {
		return nil
	}
	p.String()
	return p
}

func c09shape(out string) map[string]any {
	m := map[string]any{"scheme_ok": false, "host_dotted": false, "loopback": false, "fragment": strings.Contains(out, "#")}
	rest := ""
	switch {
	case strings.HasPrefix(out, "http://"):
		rest = out[7:]
		m["scheme_ok"] = true
	case strings.HasPrefix(out, "https://"):
		rest = out[8:]
		m["scheme_ok"] = true
	default:
		return m
	}
	if i := strings.IndexAny(rest, "/?#"); i >= 0 {
		rest = rest[:i]
	}
	if i := strings.LastIndex(rest, "@"); i >= 0 {
		rest = rest[i+1:]
	}
	host := rest
	if strings.HasPrefix(host, "[") {
		if i := strings.Index(host, "]"); i >= 0 {
			host = host[:i+1]
		}
	} else if i := strings.LastIndex(host, ":"); i >= 0 {
		host = host[:i]
	}
	m["host"] = host
	m["host_dotted"] = strings.Contains(host, ".") && host != ""
	m["loopback"] = host == "localhost" || host == "127.0.0.1"
	return m
}

func c09(args []string) error {
	if len(args) != 3 {
		return fmt.Errorf("usage: c09 <out> <nstruct> <nmut>")
	}
	var ns, nm int
	fmt.Sscan(args[1], &ns)
	fmt.Sscan(args[2], &nm)
	tr, err := vh.NewTracer(args[0])
	if err != nil {
		return err
	}
	defer tr.Close()
	r := vh.Rand(9)

	var sharedParent *models.URL // non-nil: every evaluation uses this one parent object (all links of one page do)
	emitNorm := func(ev map[string]any, input, parentText string) (c09result, bool) {
		res := []c09result{}
		for i := 0; i < 4; i++ { // fresh objects every time
			if sharedParent != nil {
				res = append(res, c09norm(input, sharedParent))
			} else {
				res = append(res, c09norm(input, c09parent(parentText)))
			}
		}
		same := true
		for _, x := range res[1:] {
			if x != res[0] {
				same = false
			}
		}
		outs := []string{}
		for _, x := range res {
			outs = append(outs, x.out)
		}
		ev["input"], ev["parent"], ev["outs"], ev["same"], ev["rejected"], ev["panic"] = input, parentText, outs, same, res[0].err, res[0].pan
		ev["out"] = res[0].out
		if !res[0].err {
			again := c09norm(res[0].out, c09parent(parentText))
			ev["again_ok"] = !again.err
			ev["again_eq"] = again.out == res[0].out
			ev["again_eq_trim"] = again.out == strings.Trim(res[0].out, `"'`)
			ev["quoted"] = res[0].out != strings.Trim(res[0].out, `"'`)
			for k, v := range c09shape(res[0].out) {
				ev[k] = v
			}
		}
		return res[0], same
	}

	var corpus []([2]string)
	// ---- structured
	for i := 0; i < ns; i++ {
		base := c09url{Scheme: []string{"http", "https"}[r.Intn(2)], Host: c09hosts[r.Intn(len(c09hosts))],
			Port: []string{"", "", "8080", "80", "443"}[r.Intn(5)], Path: c09path(r, false, 3), Query: c09query(r)}
		if len(base.Path) == 0 {
			base.Path = []string{""}
		}
		baseText := base.Scheme + "://" + c09hostport(base.Host, base.Port) + "/" + strings.Join(base.Path, "/")
		if len(base.Query) > 0 {
			baseText += "?" + c09renderQuery(r, base.Query)
		}
		ref := c09ref{Kind: []string{"abs", "schemerel", "pathabs", "pathrel", "pathrel", "query", "empty"}[r.Intn(7)],
			Scheme: []string{"http", "https"}[r.Intn(2)], Host: c09hosts[r.Intn(len(c09hosts))],
			Port: []string{"", "", "8443", "80", "443"}[r.Intn(5)], Segs: c09path(r, true, 4), Query: c09query(r)}
		ref.HasQ = len(ref.Query) > 0
		text := ""
		switch ref.Kind {
		case "abs":
			text = ref.Scheme + "://" + c09hostport(ref.Host, ref.Port) + "/" + strings.Join(ref.Segs, "/")
		case "schemerel":
			text = "//" + c09hostport(ref.Host, ref.Port) + "/" + strings.Join(ref.Segs, "/")
		case "pathabs":
			text = "/" + strings.Join(ref.Segs, "/")
		case "pathrel":
			if len(ref.Segs) == 0 || ref.Segs[0] == "" {
				ref.Segs = append([]string{c09segs[r.Intn(len(c09segs))]}, ref.Segs...)
			}
			text = strings.Join(ref.Segs, "/")
		case "query":
			if !ref.HasQ {
				ref.Query = [][]string{{"k", "1"}}
				ref.HasQ = true
			}
		case "empty":
			ref.Query, ref.HasQ, ref.Segs = [][]string{}, false, []string{}
		}
		if ref.HasQ && ref.Kind != "empty" {
			text += "?" + c09renderQuery(r, ref.Query)
		}
		if k := r.Intn(6); k == 0 {
			text += "#frag" + fmt.Sprint(r.Intn(9))
		} else if k == 1 {
			text += "#" // an empty fragment
		}
		if ref.Kind == "empty" && text == "" {
			text = "#top"
		}
		if r.Intn(8) == 0 {
			text = `"` + text + `"`
		} else if r.Intn(8) == 0 {
			text = "'" + text + "'"
		}
		ev := map[string]any{"ev": "norm", "cls": "structured", "base": base, "ref": ref}
		res, _ := emitNorm(ev, text, baseText)
		if !res.err {
			if tok, ok := c09tokens(res.out); ok {
				ev["tok"] = tok
			}
		}
		// the base itself must tokenise to what it was built from (binds the generator to the splitter)
		if pb := c09parent(baseText); pb != nil {
			if tok, ok := c09tokens(pb.String()); ok {
				ev["basetok"] = tok
			}
		}
		tr.Emit(ev)
		corpus = append(corpus, [2]string{text, baseText})
		// a seed of its own: the absolute form without parent, and a scheme-less form
		if ref.Kind == "abs" && r.Intn(2) == 0 {
			ev2 := map[string]any{"ev": "norm", "cls": "seed"}
			emitNorm(ev2, text, "")
			tr.Emit(ev2)
		}
	}
	// ---- the links of one page are normalised against ONE parent object, one after the other: the result must not
	// depend on what was normalised before (first each reference with a fresh parent, then the same ones in a shuffled
	// order against the shared object; the monitor compares by (text, parent))
	pageRefs := []string{"/abs/x.css?v=1", "img.png", "../up/a.js", "?page=2", "//cdn.example.org/lib.js", "./here/i.gif", "/", "deep/er/f.woff", "http://example.com/z?b=2&a=1", "#top", "#", "other.html#", "?q=1&q=2#", "/r?a=%2541&b=%252541"}
	for i := 0; i < 40 && i < len(corpus); i++ {
		baseText := corpus[(i*7)%len(corpus)][1]
		if baseText == "" || c09parent(baseText) == nil {
			continue
		}
		for _, ref := range pageRefs {
			ev := map[string]any{"ev": "norm", "cls": "page-fresh"}
			emitNorm(ev, ref, baseText)
			tr.Emit(ev)
		}
		sharedParent = c09parent(baseText)
		for _, k := range r.Perm(len(pageRefs)) {
			ev := map[string]any{"ev": "norm", "cls": "page-shared"}
			emitNorm(ev, pageRefs[k], baseText)
			tr.Emit(ev)
		}
		sharedParent = nil
	}
	// ---- unstructured: hand-written nasties and mutations
	nasties := []string{"", " ", "http://", "http:///", "://x", "http://example.com#", "http://example.com/#a#b", "HTTP://EXAMPLE.COM/A?B=C#D",
		"http://localhost/", "http://127.0.0.1/x", "http://intranet/", "ftp://example.com/", "mailto:a@example.com", "javascript:alert(1)",
		"data:text/html,<a>", "http://user:pw@example.com:80/p?q=1#f", "http://[::1]/", "http://[2001:db8::1]:8080/p", "http://bücher.example/ä?ö=ü",
		"http://example.com/a b?c d=e f", "http://example.com/%zz", "http://example.com/?a=%zz&b=1", "http://example.com/?a=1;b=2&c=3",
		"http://example.com/?a=1&&b=2&=3&c", "\"'http://example.com/q'\"", "http://example.com/a'", "http://example.com/?q='x'", "//example.com/x",
		"example.com", "example.com:8080/x?y=1", "www.example.com/a/../b/./c", "http://example.com/a/../../../b", "http://example.com/./", "http://example.com/..",
		"http://example.com\\a\\b", "http:/example.com/a", "http:example.com/a", "hTTps://Example.Com:443/", "http://example.com:80/", "http://example.com:0/",
		"http://example.com:99999/", "http://1.2.3.4/", "http://0x7f.1/", "http://2130706433/", "http://127.1/", "http://example.com./", "http://.example.com/",
		"http://exa mple.com/", "http://example.com/\t\n", "\thttp://example.com/\n", "http://example.com/?b=2&a=1&b=1&a=2", "http://example.com/?%61=%62&a=b+c",
		"http://example.com/?x=1#?y=2", "?only=query", "#onlyfrag", "../up", "./here", "/abs/path?x=1", "a/b/c", "http://example.com/a%2Fb/c%2fd", "http://example.com/%7Euser",
		"http://xn--bcher-kva.example/", "http://127.0.0.1:8080/admin", "https://127.0.0.1:8443/x?a=1", "http://user:pw@127.0.0.1:2019/cfg", "http://localhost:8080/", "http://LOCALHOST:80/a",
		"//localhost:9/x", "//127.0.0.1:81/y", "http://intranet:8080/", "http://printer:631/q", "https://u@localhost/", "http://example.com/" + strings.Repeat("a/", 300), "http://" + strings.Repeat("a.", 100) + "com/"}
	parents := []string{"", "http://example.com/dir/page.html?x=1", "https://sub.example.org:8443/a/b/"}
	for _, s := range nasties {
		for _, p := range parents {
			ev := map[string]any{"ev": "norm", "cls": "nasty"}
			emitNorm(ev, s, p)
			tr.Emit(ev)
			corpus = append(corpus, [2]string{s, p})
		}
	}
	alphabet := []string{" ", "\t", "%", "%41", "%zz", "#", "?", "&", "=", ";", "@", ":", "/", "//", "\\", "'", "\"", "..", ".", "é", "日本", "[", "]", "<", ">", "|", "^", "`", "{", "}", "+", "*", "\x00", "\x7f", "%00"}
	for i := 0; i < nm; i++ {
		c := corpus[r.Intn(len(corpus))]
		b := []rune(c[0])
		for k := 0; k < 1+r.Intn(3); k++ {
			pos := 0
			if len(b) > 0 {
				pos = r.Intn(len(b) + 1)
			}
			switch r.Intn(3) {
			case 0:
				ins := []rune(alphabet[r.Intn(len(alphabet))])
				b = append(b[:pos], append(ins, b[pos:]...)...)
			case 1:
				if pos < len(b) {
					b = append(b[:pos], b[pos+1:]...)
				}
			case 2:
				if pos < len(b) && len(b) > 1 {
					j := r.Intn(len(b))
					b[pos], b[j] = b[j], b[pos]
				}
			}
		}
		ev := map[string]any{"ev": "norm", "cls": "mutated"}
		emitNorm(ev, string(b), c[1])
		tr.Emit(ev)
	}
	// ---- the same inputs again, later, on fresh objects: a pure function gives the same answers
	for i := 0; i < len(corpus) && i < 400; i++ {
		c := corpus[r.Intn(len(corpus))]
		ev := map[string]any{"ev": "norm", "cls": "repeat"}
		emitNorm(ev, c[0], c[1])
		tr.Emit(ev)
	}
	return nil
}
