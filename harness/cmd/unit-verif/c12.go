package main

import (
	"fmt"
	"runtime"
	"sync"
	"sync/atomic"
	"time"

	"github.com/internetarchive/Zeno/internal/pkg/reactor"
	"github.com/internetarchive/Zeno/internal/pkg/verifhook"
	"github.com/internetarchive/Zeno/pkg/models"
	"github.com/internetarchive/Zeno/verifharness/vh"
)

// c12: concurrent producers / workers / controller against the real reactor. Every API call is
// recorded as a call event (before it starts) and a ret event (after it returned) with its result,
// every delivery on the output channel as an out event, and the state table / tokens in use at
// quiescent points. The hooks inside the reactor only perturb the schedule (seeded yields).
//
// usage: unit-verif c12 <out-trace.ndjson> <n-scenarios> <max-tokens>
func init() { drivers["c12"] = c12 }

func c12res(err error) string {
	switch err {
	case nil:
		return "nil"
	case reactor.ErrReactorFrozen:
		return "frozen"
	case reactor.ErrReactorShuttingDown:
		return "shutdown"
	case reactor.ErrFeedbackItemNotPresent:
		return "notpresent"
	case reactor.ErrFinisehdItemNotFound:
		return "notfound"
	case reactor.ErrReactorNotInitialized:
		return "notinit"
	}
	return "other:" + err.Error()
}

func c12item(id string) *models.Item {
	u := &models.URL{Raw: "http://example.com/" + id}
	u.Parse()
	return models.NewItem(id, u, "")
}

func c12(args []string) error {
	if len(args) != 3 {
		return fmt.Errorf("usage: c12 <out> <n> <max>")
	}
	var n, max int
	fmt.Sscan(args[1], &n)
	fmt.Sscan(args[2], &max)
	tr, err := vh.NewTracer(args[0])
	if err != nil {
		return err
	}
	defer tr.Close()
	tr.Sync = true
	vh.InitConfig("c12", nil)

	var ctr atomic.Uint64
	seed := uint64(vh.Seed())
	verifhook.Set(func(point string, a ...any) {
		h := (ctr.Add(1)*0x9E3779B97F4A7C15 + seed*0xBF58476D1CE4E5B9)
		h ^= h >> 29
		switch h % 5 {
		case 0:
			runtime.Gosched()
		case 1:
			time.Sleep(time.Duration(h>>8%300) * time.Microsecond)
		}
	})
	defer verifhook.Set(nil)

	for sc := 1; sc <= n; sc++ {
		rng := vh.Rand(int64(1200 + sc + 1000*max))
		nItems := 4 + rng.Intn(8)
		nProd := 1 + rng.Intn(2)
		nWork := 1 + rng.Intn(3)
		midFreeze := rng.Intn(3) == 0
		out := make(chan *models.Item, rng.Intn(2))
		if err := reactor.Start(max, out); err != nil {
			return err
		}
		tr.Emit(map[string]any{"ev": "start", "sc": sc, "max": max, "items": nItems, "prod": nProd, "work": nWork, "mid": midFreeze})

		call := func(c, op, id string, f func() error) string {
			tr.Emit(map[string]any{"ev": "call", "sc": sc, "c": c, "op": op, "id": id})
			done := make(chan string, 1)
			go func() { done <- c12res(f()) }()
			select {
			case r := <-done:
				tr.Emit(map[string]any{"ev": "ret", "sc": sc, "c": c, "op": op, "id": id, "res": r})
				return r
			case <-time.After(4 * time.Second):
				tr.Emit(map[string]any{"ev": "stuck", "sc": sc, "c": c, "op": op, "id": id})
				return "stuck"
			}
		}

		held := make(chan *models.Item, 1000)
		var stopConsumer = make(chan struct{})
		var consumerWg sync.WaitGroup
		var delivered atomic.Int64
		consumerWg.Add(1)
		go func() {
			defer consumerWg.Done()
			for {
				select {
				case it := <-out:
					tr.Emit(map[string]any{"ev": "out", "sc": sc, "id": it.GetID()})
					delivered.Add(1)
					held <- it
				case <-stopConsumer:
					return
				}
			}
		}()

		var accepted atomic.Int64
		var finished sync.Map
		var stuck atomic.Bool
		var wg sync.WaitGroup
		ids := make(chan string, nItems)
		for i := 0; i < nItems; i++ {
			ids <- fmt.Sprintf("s%d-%d", sc, i)
		}
		close(ids)
		for p := 0; p < nProd; p++ {
			wg.Add(1)
			go func(p int) {
				defer wg.Done()
				c := fmt.Sprintf("p%d", p+1)
				for id := range ids {
					it := c12item(id)
					r := call(c, "insert", id, func() error { return reactor.ReceiveInsert(it) })
					if r == "nil" {
						accepted.Add(1)
					}
					if r == "stuck" {
						stuck.Store(true)
						return
					}
					if r != "nil" {
						return
					}
				}
			}(p)
		}
		var prodDone atomic.Bool
		var workWg sync.WaitGroup
		for w := 0; w < nWork; w++ {
			workWg.Add(1)
			go func(w int) {
				defer workWg.Done()
				c := fmt.Sprintf("w%d", w+1)
				wr := vh.Rand(int64(sc*100 + w))
				fb := map[string]int{}
				for {
					var it *models.Item
					select {
					case it = <-held:
					case <-time.After(20 * time.Millisecond):
						if prodDone.Load() && delivered.Load() >= accepted.Load() && len(held) == 0 {
							return
						}
						continue
					}
					id := it.GetID()
					switch {
					case fb[id] < 2 && wr.Intn(3) == 0:
						fb[id]++
						r := call(c, "feedback", id, func() error { return reactor.ReceiveFeedback(it) })
						if r == "nil" {
							accepted.Add(1)
						}
						if r == "stuck" {
							stuck.Store(true)
							return
						}
					default:
						r := call(c, "finish", id, func() error { return reactor.MarkAsFinished(it) })
						if r == "stuck" {
							stuck.Store(true)
							return
						}
						finished.Store(id, true)
						if wr.Intn(4) == 0 { // repeated finish
							if call(c, "finish", id, func() error { return reactor.MarkAsFinished(it) }) == "stuck" {
								stuck.Store(true)
								return
							}
						}
						if wr.Intn(4) == 0 { // feedback for a seed that is no longer tracked
							if call(c, "feedback", id, func() error { return reactor.ReceiveFeedback(it) }) == "stuck" {
								stuck.Store(true)
								return
							}
						}
					}
					if wr.Intn(5) == 0 { // feedback / finish for a seed the reactor never saw
						g := c12item(fmt.Sprintf("ghost%d-%s-%d", sc, c, wr.Intn(1000)))
						if wr.Intn(2) == 0 {
							call(c, "feedback", g.GetID(), func() error { return reactor.ReceiveFeedback(g) })
						} else {
							call(c, "finish", g.GetID(), func() error { return reactor.MarkAsFinished(g) })
						}
					}
				}
			}(w)
		}
		if midFreeze {
			time.Sleep(time.Duration(rng.Intn(3000)) * time.Microsecond)
			call("ctl", "freeze", "none", func() error { reactor.Freeze(); return nil })
		}
		wg.Wait()
		prodDone.Store(true)
		workWg.Wait()
		if !midFreeze {
			call("ctl", "freeze", "none", func() error { reactor.Freeze(); return nil })
		}
		// after Freeze returned nothing is accepted any more
		var it *models.Item
		for k := 0; k < 3; k++ {
			it = c12item(fmt.Sprintf("late%d-%d", sc, k))
			call("ctl", "insert", it.GetID(), func() error { return reactor.ReceiveInsert(it) })
		}
		for _, id := range reactor.GetStateTable() {
			tracked := c12item(id)
			call("ctl", "feedback", id, func() error { return reactor.ReceiveFeedback(tracked) })
			break
		}
		// settle, then the quiescent snapshot
		for i := 0; i < 100 && delivered.Load() < accepted.Load(); i++ {
			time.Sleep(5 * time.Millisecond)
		}
		if !stuck.Load() {
			tr.Emit(map[string]any{"ev": "snap", "sc": sc, "table": reactor.GetStateTable(), "tokens": reactor.TokensInUseForVerif(),
				"accepted": accepted.Load(), "delivered": delivered.Load()})
		}
		close(stopConsumer)
		consumerWg.Wait()
		if stuck.Load() {
			// a call is blocked inside the reactor for good: this process cannot go on
			tr.Emit(map[string]any{"ev": "abort", "sc": sc})
			return nil
		}
		call("ctl", "stop", "none", func() error { reactor.Stop(); return nil })
		call("ctl", "insert", it.GetID(), func() error { return reactor.ReceiveInsert(it) })
		call("ctl", "finish", it.GetID(), func() error { return reactor.MarkAsFinished(it) })
	}
	// ---- two finishers racing for the same seed, many times: exactly one of them owns the token
	{
		sc := n + 1
		rounds := 60 * n
		if rounds > 9000 {
			rounds = 9000
		}
		out := make(chan *models.Item, 4)
		if err := reactor.Start(max, out); err != nil {
			return err
		}
		tr.Emit(map[string]any{"ev": "start", "sc": sc, "max": max, "items": rounds, "prod": 1, "work": 2, "mid": false})
		emitCall := func(c, op, id string, f func() error) string {
			tr.Emit(map[string]any{"ev": "call", "sc": sc, "c": c, "op": op, "id": id})
			done := make(chan string, 1)
			go func() { done <- c12res(f()) }()
			select {
			case r := <-done:
				tr.Emit(map[string]any{"ev": "ret", "sc": sc, "c": c, "op": op, "id": id, "res": r})
				return r
			case <-time.After(4 * time.Second):
				tr.Emit(map[string]any{"ev": "stuck", "sc": sc, "c": c, "op": op, "id": id})
				return "stuck"
			}
		}
		stuck := false
		for k := 0; k < rounds && !stuck; k++ {
			it := c12item(fmt.Sprintf("race%d", k))
			if emitCall("p1", "insert", it.GetID(), func() error { return reactor.ReceiveInsert(it) }) != "nil" {
				break
			}
			got := <-out
			tr.Emit(map[string]any{"ev": "out", "sc": sc, "id": got.GetID()})
			if k%2 == 1 {
				// the holder's feedback racing with a finish of the same seed: whichever comes first, the seed is no longer
				// tracked afterwards, and an accepted feedback is delivered once more
				// (both calls are recorded as pending first, then two spinning goroutines are released together - with a
				// few dozen nanoseconds of skew that changes from round to round - so that the two calls really overlap)
				tr.Emit(map[string]any{"ev": "call", "sc": sc, "c": "w1", "op": "finish", "id": it.GetID()})
				tr.Emit(map[string]any{"ev": "call", "sc": sc, "c": "w2", "op": "feedback", "id": it.GetID()})
				var ready, rel atomic.Int32
				fin, fb := make(chan string, 1), make(chan string, 1)
				spin := func(n int) {
					for i := 0; i < n; i++ {
						rel.Load()
					}
				}
				go func() {
					ready.Add(1)
					for rel.Load() == 0 {
					}
					spin((k / 2 % 12) * 8)
					fin <- c12res(reactor.MarkAsFinished(it))
				}()
				go func() {
					ready.Add(1)
					for rel.Load() == 0 {
					}
					spin((11 - k/2%12) * 8)
					fb <- c12res(reactor.ReceiveFeedback(it))
				}()
				for i := 0; ready.Load() < 2 && i < 100000; i++ {
					runtime.Gosched()
				}
				rel.Store(1)
				a, b := "stuck", "stuck"
				for i := 0; i < 2; i++ {
					select {
					case a = <-fin:
					case b = <-fb:
					case <-time.After(4 * time.Second):
						i = 2
					}
				}
				for _, x := range [][3]string{{"w1", "finish", a}, {"w2", "feedback", b}} {
					if x[2] == "stuck" {
						tr.Emit(map[string]any{"ev": "stuck", "sc": sc, "c": x[0], "op": x[1], "id": it.GetID()})
					} else {
						tr.Emit(map[string]any{"ev": "ret", "sc": sc, "c": x[0], "op": x[1], "id": it.GetID(), "res": x[2]})
					}
				}
				if a == "stuck" || b == "stuck" {
					stuck = true
				}
				if b == "nil" {
					select {
					case again := <-out:
						tr.Emit(map[string]any{"ev": "out", "sc": sc, "id": again.GetID()})
					case <-time.After(4 * time.Second):
						tr.Emit(map[string]any{"ev": "stuck", "sc": sc, "c": "run", "op": "deliver", "id": it.GetID()})
						stuck = true
					}
				}
				if k%16 == 1 && !stuck {
					tr.Emit(map[string]any{"ev": "snap", "sc": sc, "table": reactor.GetStateTable(), "tokens": reactor.TokensInUseForVerif(), "accepted": k + 1, "delivered": k + 1})
				}
				continue
			}
			start := make(chan struct{})
			res := make(chan string, 2)
			for _, c := range []string{"w1", "w2"} {
				go func(c string) {
					<-start
					res <- emitCall(c, "finish", it.GetID(), func() error { return reactor.MarkAsFinished(it) })
				}(c)
			}
			close(start)
			if a, b := <-res, <-res; a == "stuck" || b == "stuck" {
				stuck = true
			}
		}
		if stuck {
			tr.Emit(map[string]any{"ev": "abort", "sc": sc})
			return nil
		}
		tr.Emit(map[string]any{"ev": "snap", "sc": sc, "table": reactor.GetStateTable(), "tokens": reactor.TokensInUseForVerif(), "accepted": rounds, "delivered": rounds})
		emitCall("ctl", "freeze", "none", func() error { reactor.Freeze(); return nil })
		emitCall("ctl", "stop", "none", func() error { reactor.Stop(); return nil })
	}
	return nil
}
