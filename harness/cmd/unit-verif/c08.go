package main

import (
	"fmt"
	"os"
	"strings"
	"sync"
	"sync/atomic"
	"time"

	"github.com/internetarchive/Zeno/internal/pkg/config"
	"github.com/internetarchive/Zeno/internal/pkg/preprocessor"
	"github.com/internetarchive/Zeno/internal/pkg/preprocessor/seencheck"
	"github.com/internetarchive/Zeno/internal/pkg/verifhook"
	"github.com/internetarchive/Zeno/pkg/models"
	"github.com/internetarchive/Zeno/verifharness/vh"
)

// c08: the real local seen-store (LevelDB) and the real canonical strings. Every SeencheckItem call
// is recorded as a call event (canonical URL and type of each node at the working depth, taken from
// fresh URL objects built from text) and a ret event (the nodes' statuses).
//
// usage: unit-verif c08 <out-trace.ndjson> <n-sequential> <n-concurrent-rounds>
func init() { drivers["c08"] = c08 }

var c08id atomic.Int64

func c08url(text string, parent *models.URL) *models.URL {
	u := &models.URL{Raw: text}
	if err := preprocessor.NormalizeURL(u, parent); err != nil {
		panic(fmt.Sprintf("generator produced an invalid URL %q: %v", text, err))
	}
	return u
}

// c08seed builds a seed whose working level holds the given URLs.
// kind: "seed" (the seed itself is checked), "assets" (children of a processed seed), "redirect"
func c08seed(kind, seedText string, texts []string) *models.Item {
	id := c08id.Add(1)
	su := c08url(seedText, nil)
	seed := models.NewItem(fmt.Sprintf("seed-%d", id), su, "")
	switch kind {
	case "seed":
	case "assets":
		for i, t := range texts {
			child := models.NewItem(fmt.Sprintf("a-%d-%d", id, i), c08url(t, su), "")
			if err := seed.AddChild(child, models.ItemGotChildren); err != nil {
				panic(err)
			}
		}
	case "redirect":
		child := models.NewItem(fmt.Sprintf("r-%d", id), c08url(texts[0], su), "")
		if err := seed.AddChild(child, models.ItemGotRedirected); err != nil {
			panic(err)
		}
	case "redirects": // several assets of one page answered with a redirect: their targets are checked together, as seeds
		for i, t := range texts {
			au := c08url(fmt.Sprintf("%s-via%d", seedText, i), nil)
			asset := models.NewItem(fmt.Sprintf("a-%d-%d", id, i), au, "")
			if err := seed.AddChild(asset, models.ItemGotChildren); err != nil {
				panic(err)
			}
			target := models.NewItem(fmt.Sprintf("t-%d-%d", id, i), c08url(t, au), "")
			if err := asset.AddChild(target, models.ItemGotRedirected); err != nil {
				panic(err)
			}
		}
	}
	return seed
}

type c08node struct {
	C string `json:"c"`
	T string `json:"t"`
}

func c08level(seed *models.Item) (nodes []c08node, items []*models.Item) {
	items, _ = seed.GetNodesAtLevel(seed.GetMaxDepth())
	for _, it := range items {
		t := "seed"
		if it.IsChild() {
			t = "asset"
		}
		nodes = append(nodes, c08node{C: it.GetURL().String(), T: t})
	}
	return
}

func c08(args []string) error {
	if len(args) != 3 {
		return fmt.Errorf("usage: c08 <out> <nseq> <nconc>")
	}
	var nseq, nconc int
	fmt.Sscan(args[1], &nseq)
	fmt.Sscan(args[2], &nconc)
	tr, err := vh.NewTracer(args[0])
	if err != nil {
		return err
	}
	defer tr.Close()
	tr.Sync = true
	dir, _ := os.MkdirTemp("", "verif-c08-")
	defer os.RemoveAll(dir)
	vh.InitConfig("c08", func(c *config.Config) { c.DisableSeencheck = false; c.UseSeencheck = true })
	if err := seencheck.Start(dir); err != nil {
		return err
	}
	defer seencheck.Close()

	var callID atomic.Int64
	check := func(seed *models.Item, tag string) {
		id := callID.Add(1)
		nodes, items := c08level(seed)
		tr.Emit(map[string]any{"ev": "call", "id": id, "tag": tag, "nodes": nodes})
		err := seencheck.SeencheckItem(seed)
		st := []string{}
		for _, it := range items {
			st = append(st, it.GetStatus().String())
		}
		ev := map[string]any{"ev": "ret", "id": id, "st": st}
		if err != nil {
			ev["err"] = err.Error()
		}
		tr.Emit(ev)
	}

	// URL texts: several spellings of the same canonical URL, multi-parameter and oddly encoded queries
	r := vh.Rand(8)
	hosts := []string{"one.example", "two.example"}
	paths := []string{"/", "/a", "/a/b.png", "/p/q/r.css", "/x%20y", "/%7Euser/i.js"}
	queries := []string{"", "?a=1", "?a=1&b=2", "?b=2&a=1", "?a=1&b=2&c=3&d=4", "?k", "?k=", "?q=x+y", "?q=x%20y", "?a=1&a=2&a=1", "?u=%C3%A9&v=%2F"}
	mk := func(ns string) string {
		return "http://" + ns + hosts[r.Intn(len(hosts))] + paths[r.Intn(len(paths))] + queries[r.Intn(len(queries))]
	}
	spell := func(u string) string { // another spelling of the same URL
		switch r.Intn(4) {
		case 0:
			return u + "#frag"
		case 1:
			return `"` + u + `"`
		default:
			return u
		}
	}

	// ---- A. sequential histories
	for i := 0; i < nseq; i++ {
		ns := fmt.Sprintf("s%d.", i/25) // a fresh namespace every 25 calls, overlaps inside it
		switch r.Intn(4) {
		case 3:
			var ts []string
			for k := 0; k < 2+r.Intn(3); k++ {
				ts = append(ts, spell(mk(ns)))
			}
			check(c08seed("redirects", mk(ns), ts), "seq")
		case 0:
			check(c08seed("seed", spell(mk(ns)), nil), "seq")
		case 1:
			var ts []string
			for k := 0; k < 1+r.Intn(4); k++ {
				ts = append(ts, spell(mk(ns)))
			}
			check(c08seed("assets", mk(ns), ts), "seq")
		case 2:
			check(c08seed("redirect", mk(ns), []string{spell(mk(ns))}), "seq")
		}
	}

	// ---- B. concurrent rounds
	for round := 0; round < nconc; round++ {
		ns := fmt.Sprintf("c%d.", round)
		var seeds []*models.Item
		for g := 0; g < 4; g++ {
			for k := 0; k < 3; k++ {
				switch r.Intn(3) {
				case 0:
					seeds = append(seeds, c08seed("seed", spell(mk(ns)), nil))
				case 1:
					seeds = append(seeds, c08seed("assets", mk(ns), []string{spell(mk(ns)), spell(mk(ns)), spell(mk(ns))}))
				case 2:
					seeds = append(seeds, c08seed("redirect", mk(ns), []string{spell(mk(ns))}))
				}
			}
		}
		var wg sync.WaitGroup
		for g := 0; g < 4; g++ {
			wg.Add(1)
			go func(g int) {
				defer wg.Done()
				for k := 0; k < 3; k++ {
					check(seeds[g*3+k], "conc")
				}
			}(g)
		}
		wg.Wait()
	}

	// ---- C. gated: an asset check is held between its lookup and its record while a seed check of the
	//         same URL completes; afterwards the URL is checked as a seed again
	for k := 0; k < 4; k++ {
		target := fmt.Sprintf("http://g%d.one.example/shared.js?a=1&b=2", k)
		canon := c08url(target, nil).String()
		release := make(chan struct{})
		var parked atomic.Bool
		verifhook.Set(func(point string, a ...any) {
			if point == "seencheck.get" && a[0].(string) == canon && a[1].(string) == "asset" && parked.CompareAndSwap(false, true) {
				select {
				case <-release:
				case <-time.After(400 * time.Millisecond): // repaired code: the seed check cannot run while we are held
				}
			}
		})
		done := make(chan struct{})
		go func() {
			check(c08seed("assets", fmt.Sprintf("http://g%d.two.example/page", k), []string{target}), "gated-asset")
			close(done)
		}()
		for i := 0; i < 500 && !parked.Load(); i++ {
			time.Sleep(time.Millisecond)
		}
		sdone := make(chan struct{})
		go func() { check(c08seed("seed", target, nil), "gated-seed1"); close(sdone) }()
		select {
		case <-sdone:
		case <-time.After(150 * time.Millisecond):
		}
		close(release)
		<-done
		<-sdone
		verifhook.Set(nil)
		check(c08seed("seed", target+"#again", nil), "gated-seed2")
	}

	// ---- E. whole pages through the real preprocess (normalise, de-duplicate, seencheck, drop what is not fresh, build
	//         requests): pages of one site share runs of ADJACENT assets; what the store has seen must come out without
	//         a request, whatever its position in the batch
	for site := 0; site < 6+nseq/60; site++ {
		ns := fmt.Sprintf("e%d.", site)
		sharedN := 3 + r.Intn(4)
		var shared []string
		for k := 0; k < sharedN; k++ {
			shared = append(shared, fmt.Sprintf("http://%sone.example/static/s%d.css?v=1&w=2", ns, k))
		}
		for page := 0; page < 4; page++ {
			pageText := fmt.Sprintf("http://%sone.example/p%d/index.html", ns, page)
			var texts []string
			texts = append(texts, fmt.Sprintf("http://%sone.example/p%d/own-first.png", ns, page))
			texts = append(texts, shared...) // adjacent
			texts = append(texts, fmt.Sprintf("http://%sone.example/p%d/own-last.png", ns, page))
			su := c08url(pageText, nil)
			seed := models.NewItem(fmt.Sprintf("seed-%d", c08id.Add(1)), su, "")
			var kids []*models.Item
			var nodes []c08node
			for i, t := range texts {
				child := models.NewItem(fmt.Sprintf("e-%d-%d-%d", site, page, i), &models.URL{Raw: t}, "")
				if err := seed.AddChild(child, models.ItemGotChildren); err != nil {
					panic(err)
				}
				kids = append(kids, child)
				nodes = append(nodes, c08node{C: c08url(t, su).String(), T: "asset"})
			}
			id := callID.Add(1)
			tr.Emit(map[string]any{"ev": "call", "id": id, "tag": "preprocess", "nodes": nodes})
			preprocessor.PreprocessForVerif("v", seed)
			st := []string{}
			for _, k := range kids {
				// what matters is whether the node goes on to be fetched: a request was built for it
				if k.GetStatus() == models.ItemPreProcessed && k.GetURL().GetRequest() != nil {
					st = append(st, "PreProcessed")
				} else if k.GetStatus() == models.ItemSeen {
					st = append(st, "Seen")
				} else {
					st = append(st, k.GetStatus().String())
				}
			}
			tr.Emit(map[string]any{"ev": "ret", "id": id, "st": st})
		}
	}

	// ---- F. seeds through the real preprocessor WORKER (its receive loop, not only preprocess()), built the way the queue
	//         consumers build them (text + Parse): the same URL arrives twice in two spellings, one after the other
	{
		in := make(chan *models.Item)
		outc := make(chan *models.Item, 1)
		if err := preprocessor.Start(in, outc); err != nil {
			return err
		}
		pairs := [][2]string{
			{"http://f1.one.example:80/a?b=1", "http://f1.one.example/a?b=1"},
			{"http://F2.One.Example/a", "http://f2.one.example/a"},
			{"http://f3.one.example", "http://f3.one.example/"},
			{"http://f4.one.example/x#frag", "http://f4.one.example/x"},
			{"http://f5.one.example/a?q=x%20y", "http://f5.one.example/a?q=x+y"},
			{"http://f6.one.example/p/../a", "http://f6.one.example/a"},
			{"http://f7.one.example/same", "http://f7.one.example/same"},
		}
		through := func(text string) {
			u := &models.URL{Raw: text}
			if err := u.Parse(); err != nil {
				panic(err)
			}
			seed := models.NewItem(fmt.Sprintf("seed-%d", c08id.Add(1)), u, "")
			id := callID.Add(1)
			tr.Emit(map[string]any{"ev": "call", "id": id, "tag": "worker", "nodes": []c08node{{C: c08url(text, nil).String(), T: "seed"}}})
			in <- seed
			got := <-outc
			st := got.GetStatus().String()
			if got.GetStatus() == models.ItemPreProcessed && got.GetURL().GetRequest() != nil {
				st = "PreProcessed"
			} else if got.GetStatus() == models.ItemSeen || (got.GetStatus() == models.ItemCompleted && got.GetURL().GetRequest() == nil) {
				st = "Seen" // a seed found in the store leaves the stage as done, without a request
			}
			tr.Emit(map[string]any{"ev": "ret", "id": id, "st": []string{st}})
		}
		for k, p := range pairs {
			a, b := p[0], p[1]
			if k%2 == 1 {
				a, b = b, a
			}
			through(a)
			through(b)
			// and the other order on a host of its own
			through(strings.Replace(b, ".one.", ".two.", 1))
			through(strings.Replace(a, ".one.", ".two.", 1))
		}
		preprocessor.Stop()
	}

	// ---- D. one tree, the same canonical URL in several spellings: after normalisation, de-duplication and
	//         the seencheck at most one non-seed node per URL is left to be fetched
	for i := 0; i < nseq/4; i++ {
		ns := fmt.Sprintf("d%d.", i)
		base := mk(ns)
		var ts []string
		for k := 0; k < 2+r.Intn(4); k++ {
			u := mk(ns)
			ts = append(ts, spell(u))
			if r.Intn(2) == 0 {
				ts = append(ts, spell(u))
			}
		}
		seed := c08seed("assets", base, ts)
		seed.DedupeItems()
		seencheck.SeencheckItem(seed)
		p := vh.Project(seed, func(u *models.URL) string { return u.String() })
		tr.Emit(map[string]any{"ev": "tree", "nodes": p.Nodes})
	}
	return nil
}
