package main

import (
	"fmt"
	"math"
	"sync"
	"sync/atomic"
	"time"

	"github.com/internetarchive/Zeno/internal/pkg/archiver/ratelimiter"
	"github.com/internetarchive/Zeno/internal/pkg/verifhook"
	"github.com/internetarchive/Zeno/verifharness/vh"
)

// c13: drive real token buckets with an injected virtual clock. Wait() itself runs; the hook at its
// poll point advances the scenario's clock, the hook at its take point (under the bucket's mutex)
// records the release. Outcomes (success / 429-class / 5xx) are reported like the archiver does.
//
// usage: unit-verif c13 <out-trace.ndjson> <n-scenarios> <n-streak-scenarios>
func init() { drivers["c13"] = c13 }

type c13scn struct {
	id      int
	kind    string
	clock   atomic.Int64 // virtual ms since epoch0
	step    int64
	tb      *ratelimiter.VerifBucket
	events  []map[string]any
	mu      sync.Mutex
	real    bool
	started time.Time
	nadv    int
}

var c13epoch = time.Date(2030, 1, 1, 0, 0, 0, 0, time.UTC)

func (s *c13scn) now() time.Time {
	if s.real {
		return time.Now()
	}
	return c13epoch.Add(time.Duration(s.clock.Load()) * time.Millisecond)
}

func (s *c13scn) ms(t time.Time) int64 {
	if t.IsZero() {
		return -1
	}
	if s.real {
		return t.Sub(s.started).Milliseconds()
	}
	return t.Sub(c13epoch).Milliseconds()
}

// advance moves the virtual clock at a poll of Wait(): to the next instant at which the outcome of
// the following poll may change (one ms before / at / after the end of the penalty and the moment
// the next token is due), or by the scenario's step. Only the choice of instants comes from here;
// what happens at them is decided by the code under test and judged by TLC.
func (s *c13scn) advance() {
	tokens, _, rate, _, lr, pen, _ := s.tb.StateForVerif(true)
	now := s.clock.Load()
	base := s.ms(lr)
	if p := s.ms(pen); p > base {
		base = p
	}
	var cands []int64
	if p := s.ms(pen); p > 0 {
		cands = append(cands, p-1, p, p+1)
	}
	if rate > 0 && tokens < 1 {
		need := int64(math.Ceil((1 - tokens) / rate * 1000))
		cands = append(cands, base+need-1, base+need, base+need+1)
	}
	next := now + s.step
	s.nadv++
	if s.nadv%7 != 0 { // every 7th poll is a plain step
		best := int64(-1)
		for _, c := range cands {
			if c > now && (best < 0 || c < best) {
				best = c
			}
		}
		if best > 0 {
			next = best
		}
	}
	s.clock.Store(next)
}

func (s *c13scn) tbCap() float64 {
	_, capacity, _, _, _, _, _ := s.tb.StateForVerif(true)
	return capacity
}

func mu6(x float64) int64 { return int64(math.Round(x * 1e6)) }

func (s *c13scn) record(op string, locked bool, extra map[string]any) {
	tokens, capacity, rate, ideal, lastRefill, pen, fc := s.tb.StateForVerif(!locked)
	ev := map[string]any{"ev": "rl", "b": s.id, "op": op, "t": s.ms(s.now()),
		"tokens": mu6(tokens), "cap": int64(capacity), "rate": mu6(rate), "ratem": int64(math.Round(rate * 1e3)),
		"ideal": mu6(ideal), "idealm": int64(math.Round(ideal * 1e3)),
		"lr": s.ms(lastRefill), "pen": s.ms(pen), "fc": fc}
	if op == "take" && (s.kind == "crowd" || s.kind == "concurrent") {
		// several waiters: the scenario's clock may already have been moved on by another waiter's poll; the instant that
		// counts is the one the bucket itself used for this release (it refilled in the same critical section)
		ev["t"] = s.ms(lastRefill)
	}
	for k, v := range extra {
		ev[k] = v
	}
	s.mu.Lock()
	s.events = append(s.events, ev)
	s.mu.Unlock()
}

func c13(args []string) error {
	if len(args) != 3 {
		return fmt.Errorf("usage: c13 <out> <n> <nstreak>")
	}
	var n, nstreak int
	fmt.Sscan(args[1], &n)
	fmt.Sscan(args[2], &nstreak)
	tr, err := vh.NewTracer(args[0])
	if err != nil {
		return err
	}
	defer tr.Close()

	var scns sync.Map // *VerifBucket -> *c13scn
	verifhook.Set(func(point string, a ...any) {
		if point != "rl.take" && point != "rl.poll" {
			return
		}
		tb, ok := a[0].(*ratelimiter.VerifBucket)
		if !ok {
			return
		}
		v, ok := scns.Load(tb)
		if !ok {
			return
		}
		s := v.(*c13scn)
		switch point {
		case "rl.poll":
			if !s.real {
				s.advance()
			}
		case "rl.take":
			s.record("take", true, nil)
		}
	})
	defer verifhook.Set(nil)

	caps := []float64{1, 2, 3, 5}
	ideals := []float64{0.2, 0.5, 1, 2, 0.05, 0.4}
	steps := []int64{50, 200, 1000}
	pen := []int{429, 403, 408, 425}
	srv := []int{500, 502, 503, 599}

	mk := func(id int, kind string, cp, ideal float64, step int64, real bool) *c13scn {
		s := &c13scn{id: id, kind: kind, step: step, real: real, started: time.Now()}
		s.tb = ratelimiter.NewBucketForVerif(cp, ideal, s.now)
		scns.Store(s.tb, s)
		tol := int64(1)
		if real {
			tol = int64(ideal*1e3) * 100
		}
		s.record("new", false, map[string]any{"kind": kind, "step": step, "tol": tol})
		return s
	}

	var all []*c13scn
	var wg sync.WaitGroup
	sem := make(chan struct{}, 96)
	run := func(s *c13scn, body func(s *c13scn)) {
		all = append(all, s)
		wg.Add(1)
		sem <- struct{}{}
		go func() {
			defer wg.Done()
			defer func() { <-sem }()
			body(s)
		}()
	}

	id := 0
	for i := 0; i < n; i++ {
		id++
		rng := vh.Rand(int64(1300 + i))
		s := mk(id, "random", caps[rng.Intn(len(caps))], ideals[rng.Intn(len(ideals))], steps[rng.Intn(len(steps))], false)
		nops := 15 + rng.Intn(30)
		run(s, func(s *c13scn) {
			for k := 0; k < nops; k++ {
				if rng.Intn(3) == 0 {
					s.clock.Add(int64(rng.Intn(12000)))
				}
				s.tb.Wait()
				s.clock.Add(int64(rng.Intn(400))) // the request takes a little time
				switch r := rng.Intn(100); {
				case r < 55:
					s.tb.OnSuccessForVerif()
					s.record("succ", false, nil)
				case r < 75:
					c := pen[rng.Intn(len(pen))]
					s.tb.AdjustOnFailureForVerif(c)
					s.record("fail", false, map[string]any{"code": c})
				case r < 92:
					c := srv[rng.Intn(len(srv))]
					s.tb.AdjustOnFailureForVerif(c)
					s.record("fail", false, map[string]any{"code": c})
				case r < 96:
					c := []int{404, 200, 301, 400}[rng.Intn(4)]
					s.tb.AdjustOnFailureForVerif(c)
					s.record("fail", false, map[string]any{"code": c})
				}
			}
		})
	}
	// long failure streaks: the penalty must hold at every length, also beyond 32 consecutive failures
	for i := 0; i < nstreak; i++ {
		id++
		rng := vh.Rand(int64(1400 + i))
		s := mk(id, "streak", caps[rng.Intn(2)], ideals[rng.Intn(len(ideals))], 5000, false)
		length := 36 + rng.Intn(6)
		run(s, func(s *c13scn) {
			for k := 0; k < length; k++ {
				s.tb.Wait()
				c := pen[rng.Intn(len(pen))]
				s.tb.AdjustOnFailureForVerif(c)
				s.record("fail", false, map[string]any{"code": c})
			}
			s.tb.Wait()
			s.tb.OnSuccessForVerif()
			s.record("succ", false, nil)
		})
	}
	// 5xx streaks: the rate must stay within [min(0.5, configured), configured]
	for i := 0; i < len(ideals); i++ {
		id++
		rng := vh.Rand(int64(1500 + i))
		s := mk(id, "srvstreak", 2, ideals[i], 1000, false)
		run(s, func(s *c13scn) {
			for k := 0; k < 12; k++ {
				s.tb.Wait()
				if k < 6 || rng.Intn(3) > 0 {
					c := srv[rng.Intn(len(srv))]
					s.tb.AdjustOnFailureForVerif(c)
					s.record("fail", false, map[string]any{"code": c})
				} else {
					s.tb.OnSuccessForVerif()
					s.record("succ", false, nil)
				}
			}
			for k := 0; k < 30; k++ {
				s.tb.Wait()
				s.tb.OnSuccessForVerif()
				s.record("succ", false, nil)
			}
		})
	}
	// concurrent waiters on one bucket, real clock: the window bound on the merged release log
	for i := 0; i < 3; i++ {
		id++
		s := mk(id, "concurrent", float64(2+i), 40, 0, true)
		run(s, func(s *c13scn) {
			var w sync.WaitGroup
			for g := 0; g < 6; g++ {
				w.Add(1)
				go func() {
					defer w.Done()
					for k := 0; k < 5; k++ {
						s.tb.Wait()
					}
				}()
			}
			w.Wait()
		})
	}
	// back-to-back requests after an idle period on a full bucket: exactly capacity of them go at once
	for i := 0; i < 6+n/10; i++ {
		id++
		rng := vh.Rand(int64(1700 + i))
		s := mk(id, "burst", caps[rng.Intn(len(caps))], ideals[rng.Intn(len(ideals))], 50, false)
		run(s, func(s *c13scn) {
			for round := 0; round < 3; round++ {
				s.clock.Add(int64(20000 + rng.Intn(100000))) // long enough to fill any of the buckets
				for k := 0; k < int(s.tbCap())+2; k++ {
					s.tb.Wait()
				}
			}
		})
	}
	// answers of requests that were already in flight arrive while the penalty runs: each one counts
	for i := 0; i < 4+n/10; i++ {
		id++
		rng := vh.Rand(int64(1600 + i))
		s := mk(id, "inflight", caps[rng.Intn(len(caps))], ideals[rng.Intn(len(ideals))], 1000, false)
		run(s, func(s *c13scn) {
			for round := 0; round < 3; round++ {
				s.tb.Wait()
				for k := 0; k < 2+rng.Intn(3); k++ {
					c := pen[rng.Intn(len(pen))]
					s.tb.AdjustOnFailureForVerif(c)
					s.record("fail", false, map[string]any{"code": c})
					s.clock.Add(int64(500 + rng.Intn(4000))) // still inside the penalty just imposed
				}
				s.tb.Wait()
				s.tb.OnSuccessForVerif()
				s.record("succ", false, nil)
			}
		})
	}
	// a crowd of waiters released at the same instant on a bucket that holds one token: the check and the
	// decrement of Wait() race only when several goroutines are inside it at once
	for i := 0; i < 2*n; i++ {
		id++
		s := mk(id, "crowd", 1, 20, 50, false)
		run(s, func(s *c13scn) {
			var w sync.WaitGroup
			start := make(chan struct{})
			for g := 0; g < 24; g++ {
				w.Add(1)
				go func() {
					defer w.Done()
					<-start
					s.tb.Wait()
				}()
			}
			close(start)
			w.Wait()
		})
	}
	wg.Wait()
	for _, s := range all {
		for _, ev := range s.events {
			tr.Emit(ev)
		}
	}
	return nil
}
