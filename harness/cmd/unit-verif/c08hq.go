package main

import (
	"fmt"
	"net/url"
	"strings"
	"sync"
	"sync/atomic"

	"github.com/internetarchive/Zeno/internal/pkg/config"
	"github.com/internetarchive/Zeno/internal/pkg/source/hq"
	"github.com/internetarchive/Zeno/pkg/models"
	"github.com/internetarchive/Zeno/verifharness/fakehq"
	"github.com/internetarchive/Zeno/verifharness/vh"
)

// c08hq: the crawl-HQ variant of the seencheck against the fake HQ (a seen-store keyed by the text it
// is sent, with the asset -> seed promotion rule). Same call / ret events as c08, judged by C08_Mon.
//
// usage: unit-verif c08hq <out-trace.ndjson> <n-sequential> <n-concurrent-rounds>
func init() { drivers["c08hq"] = c08hq }

func c08hq(args []string) error {
	if len(args) != 3 {
		return fmt.Errorf("usage: c08hq <out> <nseq> <nconc>")
	}
	var nseq, nconc int
	fmt.Sscan(args[1], &nseq)
	fmt.Sscan(args[2], &nconc)
	tr, err := vh.NewTracer(args[0])
	if err != nil {
		return err
	}
	defer tr.Close()
	tr.Sync = true
	srv, err := fakehq.New(func(ev map[string]any) {
		if ev["ev"] == "hq.seencheck" {
			tr.Emit(ev)
		}
	})
	if err != nil {
		return err
	}
	defer srv.Close()
	vh.InitConfig("c08hq", func(c *config.Config) {
		c.UseHQ = true
		c.HQAddress, c.HQProject, c.HQKey, c.HQSecret = "http://"+srv.Addr, "P", "k", "s"
		c.HQBatchSize, c.HQBatchConcurrency = 1, 1
		c.WorkersCount = 1
	})
	if err := hq.Start(make(chan *models.Item, 4), make(chan *models.Item, 4)); err != nil {
		return err
	}

	var callID atomic.Int64
	check := func(seed *models.Item, tag string) {
		id := callID.Add(1)
		nodes, items := c08level(seed)
		tr.Emit(map[string]any{"ev": "call", "id": id, "tag": tag, "nodes": nodes})
		injected := false
		if tag == "hq-fault" {
			// the next request to the seencheck endpoint fails (before the store looked at it)
			srv.Faults("seencheck", []string{"500", "503", "reset"}[int(id)%3])
			injected = true
		}
		err := hq.SeencheckItem(seed)
		st := []string{}
		for _, it := range items {
			st = append(st, it.GetStatus().String())
		}
		ev := map[string]any{"ev": "ret", "id": id, "st": st, "injected": injected}
		if err != nil {
			ev["err"] = err.Error()
		}
		tr.Emit(ev)
	}

	r := vh.Rand(88)
	hosts := []string{"one.example", "two.example"}
	paths := []string{"/", "/a", "/a/b.png", "/p/q/r.css", "/x%20y", "/%7Euser/i.js", "/sp ace.png", "/é.png"}
	queries := []string{"", "?a=1", "?a=1&b=2", "?b=2&a=1", "?a=1&b=2&c=3&d=4", "?k", "?k=", "?q=x+y", "?q=x%20y", "?a=1&a=2&a=1", "?u=%C3%A9&v=%2F", "?s=a b"}
	mk := func(ns string) string {
		return "http://" + ns + hosts[r.Intn(len(hosts))] + paths[r.Intn(len(paths))] + queries[r.Intn(len(queries))]
	}
	spell := func(u string) string {
		switch r.Intn(4) {
		case 0:
			return u + "#frag"
		case 1:
			return `"` + u + `"`
		default:
			return u
		}
	}
	// links as pages write them: absolute, or relative to the page's host (resolved against the parent)
	link := func(ns, page string) string {
		u := mk(ns)
		pu, _ := url.Parse(page)
		if cu, err := url.Parse(u); err == nil && cu.Host == pu.Host && r.Intn(2) == 0 {
			return strings.TrimPrefix(u, "http://"+cu.Host)
		}
		return spell(u)
	}
	one := func(ns string) *models.Item {
		page := mk(ns)
		if r.Intn(3) == 0 {
			return c08seed("redirect", page, []string{link(ns, page)})
		}
		var ts []string
		for k := 0; k < 1+r.Intn(4); k++ {
			ts = append(ts, link(ns, page))
		}
		seed := c08seed("assets", page, ts)
		seed.DedupeItems() // as preprocess does before the seencheck
		return seed
	}
	for i := 0; i < nseq; i++ {
		tag := "hq-seq"
		if i%7 == 3 {
			tag = "hq-fault"
		}
		check(one(fmt.Sprintf("s%d.", i/25)), tag)
	}
	// pages with many assets (the seencheck request of one page can be large): a few of them known already, the rest
	// new; then every one of them known
	for _, n := range []int{99, 100, 101, 150, 250} {
		var ts []string
		for k := 0; k < n; k++ {
			ts = append(ts, fmt.Sprintf("http://big%d.one.example/asset/%d.png?a=1&b=2", n, k))
		}
		few := c08seed("assets", fmt.Sprintf("http://big%d.one.example/first", n), []string{ts[0], ts[n/2], ts[n-1]})
		check(few, "hq-seq")
		check(c08seed("assets", fmt.Sprintf("http://big%d.one.example/all", n), ts), "hq-seq")
		check(c08seed("assets", fmt.Sprintf("http://big%d.two.example/again", n), ts), "hq-seq")
	}
	for round := 0; round < nconc; round++ {
		ns := fmt.Sprintf("c%d.", round)
		var seeds []*models.Item
		for g := 0; g < 12; g++ {
			seeds = append(seeds, one(ns))
		}
		var wg sync.WaitGroup
		for g := 0; g < 4; g++ {
			wg.Add(1)
			go func(g int) {
				defer wg.Done()
				for k := 0; k < 3; k++ {
					check(seeds[g*3+k], "hq-conc")
				}
			}(g)
		}
		wg.Wait()
	}
	return nil
}
