package main

import (
	"fmt"
	"io"
	"net/http"
	"net/http/httptest"
	"os"
	"path/filepath"
	"regexp"
	"strings"
	"sync/atomic"

	"github.com/internetarchive/Zeno/internal/pkg/config"
	"github.com/internetarchive/Zeno/internal/pkg/preprocessor"
	"github.com/internetarchive/Zeno/internal/pkg/preprocessor/seencheck"
	"github.com/internetarchive/Zeno/pkg/models"
	"github.com/internetarchive/Zeno/verifharness/vh"
)

// c05: the real preprocess() on trees that carry one target URL as seed, redirect target, asset or
// asset of an asset, under every combination of include / exclude host, string and regex filters.
// When a request is attached to the target, its URL is classified by plain string operations that
// follow the statement of C05 (not the code), and the facts are logged for TLC.
//
// usage: unit-verif c05 <out-trace.ndjson> <n-random>
func init() { drivers["c05"] = c05 }

type c05cfg struct {
	IncH []string `json:"inc_h"`
	IncS []string `json:"inc_s"`
	ExH  []string `json:"ex_h"`
	ExS  []string `json:"ex_s"`
	ExR  []string `json:"ex_r"`
}

func c05classify(req string, c c05cfg) map[string]any {
	m := map[string]any{"scheme": "", "dotted": false, "loopback": false, "m_exh": false, "m_exs": false, "m_exr": false,
		"m_inch": false, "m_incs": false, "any_inc": len(c.IncH)+len(c.IncS) > 0}
	i := strings.Index(req, "://")
	if i < 0 {
		return m
	}
	m["scheme"] = strings.ToLower(req[:i])
	rest := req[i+3:]
	if j := strings.IndexAny(rest, "/?#"); j >= 0 {
		rest = rest[:j]
	}
	if j := strings.LastIndex(rest, "@"); j >= 0 {
		rest = rest[j+1:]
	}
	hostport := rest
	host := hostport
	if !strings.HasPrefix(host, "[") {
		if j := strings.LastIndex(host, ":"); j >= 0 {
			host = host[:j]
		}
	}
	m["hostport"] = hostport
	m["dotted"] = strings.Contains(host, ".")
	m["loopback"] = host == "localhost" || host == "127.0.0.1"
	contains := func(s string, l []string) bool {
		for _, e := range l {
			if strings.Contains(s, e) {
				return true
			}
		}
		return false
	}
	m["m_exh"] = contains(hostport, append([]string{"archive.org", "archive-it.org"}, c.ExH...))
	m["m_exs"] = contains(req, c.ExS)
	for _, r := range c.ExR {
		if regexp.MustCompile(r).MatchString(req) {
			m["m_exr"] = true
		}
	}
	m["m_inch"] = contains(hostport, c.IncH)
	m["m_incs"] = contains(req, c.IncS)
	return m
}

func c05(args []string) error {
	if len(args) != 2 {
		return fmt.Errorf("usage: c05 <out> <nrandom>")
	}
	var nrand int
	fmt.Sscan(args[1], &nrand)
	tr, err := vh.NewTracer(args[0])
	if err != nil {
		return err
	}
	defer tr.Close()
	dir, _ := os.MkdirTemp("", "verif-c05-")
	defer os.RemoveAll(dir)
	cfg := vh.InitConfig("c05", nil)
	if err := seencheck.Start(dir); err != nil {
		return err
	}
	defer seencheck.Close()
	r := vh.Rand(5)
	uniq := 0

	nfile := 0
	var exclBody atomic.Value
	exclBody.Store("")
	exclSrv := httptest.NewServer(http.HandlerFunc(func(w http.ResponseWriter, _ *http.Request) {
		w.Header().Set("Content-Type", "text/plain")
		io.WriteString(w, exclBody.Load().(string))
	}))
	defer exclSrv.Close()
	apply := func(c c05cfg) {
		cfg.IncludeHosts, cfg.IncludeString = c.IncH, c.IncS
		cfg.ExcludeHosts, cfg.ExcludeString = append([]string{}, c.ExH...), c.ExS
		cfg.ExclusionRegexes = nil
		cfg.ExclusionFile = nil
		if len(c.ExR) > 0 {
			// the file as operators write it: LF or CRLF line ends, with or without a final line end, read from disk or
			// over HTTP
			nfile++
			eol := []string{"\n", "\r\n"}[nfile%2]
			body := strings.Join(c.ExR, eol)
			if (nfile/2)%2 == 0 {
				body += eol
			}
			f := filepath.Join(dir, "excl.txt")
			os.WriteFile(f, []byte(body), 0644)
			cfg.ExclusionFile = []string{f}
			if (nfile/4)%3 == 2 {
				exclBody.Store(body)
				cfg.ExclusionFile = []string{exclSrv.URL + "/excl.txt"}
			}
		}
		if err := config.GenerateCrawlConfig(); err != nil { // appends the default excluded hosts, compiles the regexes
			panic(err)
		}
	}

	run := func(cls, pos, text string, c c05cfg) {
		apply(c)
		uniq++
		// every case gets URLs of its own so that the seen-store never interferes
		tag := fmt.Sprintf("u%d", uniq)
		text = strings.ReplaceAll(text, "UNIQ", tag)
		parentText := "http://www.site.example/dir/" + tag + "/page.html"
		if len(c.IncH) > 0 || len(c.IncS) > 0 {
			// keep the ancestors in scope for configurations with include filters
			if len(c.IncH) > 0 {
				parentText = "http://" + c.IncH[0] + "/dir/" + tag + "/page.html"
			} else {
				parentText = "http://www.site.example/dir/" + tag + "/" + c.IncS[0] + ".html"
			}
		}
		var seed, target *models.Item
		mkURL := func(t string) *models.URL { return &models.URL{Raw: t} }
		normParent := func(t string) *models.URL {
			u := mkURL(t)
			if err := preprocessor.NormalizeURL(u, nil); err != nil {
				panic("bad parent " + t)
			}
			return u
		}
		switch pos {
		case "seed":
			seed = models.NewItem("s-"+tag, mkURL(text), "")
			target = seed
		case "redirect":
			seed = models.NewItem("s-"+tag, normParent(parentText), "")
			target = models.NewItem("r-"+tag, mkURL(text), "")
			seed.AddChild(target, models.ItemGotRedirected)
		case "asset":
			seed = models.NewItem("s-"+tag, normParent(parentText), "")
			target = models.NewItem("a-"+tag, mkURL(text), "")
			sib := models.NewItem("b-"+tag, mkURL("/dir/"+tag+"/ok.png"), "")
			seed.AddChild(sib, models.ItemGotChildren)
			seed.AddChild(target, models.ItemGotChildren)
		case "asset2":
			seed = models.NewItem("s-"+tag, normParent(parentText), "")
			mid := models.NewItem("m-"+tag, normParent(strings.Replace(parentText, "page.html", "list.m3u8", 1)), "")
			seed.AddChild(mid, models.ItemGotChildren)
			target = models.NewItem("a-"+tag, mkURL(text), "")
			mid.AddChild(target, models.ItemGotChildren)
		}
		outcome := "?"
		func() {
			defer func() {
				if rec := recover(); rec != nil {
					outcome = fmt.Sprintf("panic: %v", rec)
				}
			}()
			preprocessor.PreprocessForVerif("v", seed)
		}()
		req := ""
		if outcome == "?" {
			present := false
			seed.Traverse(func(it *models.Item) {
				if it == target {
					present = true
				}
			})
			switch {
			case !present:
				outcome = "removed"
			case target.GetURL().GetRequest() != nil && target.GetStatus() == models.ItemPreProcessed:
				outcome = "request"
				req = target.GetURL().GetRequest().URL.String()
			default:
				outcome = "norequest-" + target.GetStatus().String()
			}
		}
		nn := func(l []string) []string {
			if l == nil {
				return []string{}
			}
			return l
		}
		c.IncH, c.IncS, c.ExH, c.ExS, c.ExR = nn(c.IncH), nn(c.IncS), nn(c.ExH), nn(c.ExS), nn(c.ExR)
		ev := map[string]any{"ev": "scope", "cls": cls, "pos": pos, "text": text, "parent": parentText, "cfg": c, "outcome": outcome, "req": req,
			"panicked": strings.HasPrefix(outcome, "panic")}
		if outcome == "request" {
			for k, v := range c05classify(req, c) {
				ev[k] = v
			}
		}
		tr.Emit(ev)
	}

	positions := []string{"seed", "redirect", "asset", "asset2"}
	none := c05cfg{}
	// --- one out-of-scope reason at a time
	for _, pos := range positions {
		for _, t := range []string{"ftp://files.site.example/UNIQ/a.bin", "javascript:void(UNIQ)", "mailto:UNIQ@site.example", "data:text/plain,UNIQ",
			"file:///etc/UNIQ", "ws://www.site.example/UNIQ", "gopher://www.site.example/UNIQ", "HTTPX://www.site.example/UNIQ"} {
			run("scheme", pos, t, none)
		}
		for _, t := range []string{"http://localhost/UNIQ/x.png", "http://localhost:8080/UNIQ", "http://127.0.0.1/UNIQ/x.png", "https://127.0.0.1:8443/UNIQ",
			"http://intranet/UNIQ/x.png", "http://printer:631/UNIQ", "//localhost/UNIQ/y.js", "//intranet/UNIQ/y.js", "http://LOCALHOST/UNIQ",
			"http://[2001:db8::1]/UNIQ/x.png", "http://[::1]:8080/UNIQ", "https://[fe80::1]/UNIQ.js", "//[2001:db8::2]:81/UNIQ"} {
			run("host", pos, t, none)
		}
		for _, t := range []string{"http://web.archive.org/web/UNIQ/x", "https://archive.org/details/UNIQ", "http://wayback.archive-it.org/UNIQ/x", "//archive.org/UNIQ.png",
			"http://archive.org:80/UNIQ"} {
			run("default-exclude", pos, t, none)
		}
		exh := c05cfg{ExH: []string{"blocked.example", "ads."}}
		for _, t := range []string{"http://blocked.example/UNIQ/x.png", "http://cdn.blocked.example/UNIQ", "https://ads.site.example/UNIQ.js", "//blocked.example/UNIQ",
			"http://blocked.example:8080/UNIQ", "http://user@blocked.example/UNIQ", "http://www.site.example/UNIQ/blocked.example/ok.png"} {
			run("exclude-host", pos, t, exh)
		}
		exs := c05cfg{ExS: []string{"/private/", "logout", "sessionid="}}
		for _, t := range []string{"http://www.site.example/private/UNIQ.png", "http://www.site.example/UNIQ/logout", "http://www.site.example/UNIQ?sessionid=1", "/private/UNIQ/x.css",
			"logout?UNIQ", "?sessionid=UNIQ", "http://logout.site.example/UNIQ", "http://www.site.example/UNIQ/public/ok.png"} {
			run("exclude-string", pos, t, exs)
		}
		exr := c05cfg{ExR: []string{`\.(exe|zip)$`, `^https?://[^/]+/calendar/\d+`}}
		for _, t := range []string{"http://www.site.example/UNIQ/setup.exe", "http://www.site.example/UNIQ/a.zip", "http://www.site.example/calendar/2024UNIQ", "/calendar/1UNIQ", "UNIQ.exe",
			"http://www.site.example/UNIQ/a.zip?x=1", "http://www.site.example/UNIQ/readme.txt"} {
			run("exclude-regex", pos, t, exr)
		}
		inch := c05cfg{IncH: []string{"www.site.example"}}
		for _, t := range []string{"http://other.example/UNIQ/x.png", "http://cdn.site.example/UNIQ.js", "//other.example/UNIQ", "http://www.site.example/UNIQ/in.png", "/UNIQ/rel.png",
			"http://www.site.example.evil.example/UNIQ"} {
			run("include-host", pos, t, inch)
		}
		incs := c05cfg{IncS: []string{"keepme"}}
		for _, t := range []string{"http://www.site.example/UNIQ/other.png", "http://www.site.example/UNIQ/keepme.png", "http://keepme.example/UNIQ", "?keepme=UNIQ", "UNIQ.png"} {
			run("include-string", pos, t, incs)
		}
		both := c05cfg{IncH: []string{"www.site.example"}, IncS: []string{"keepme"}, ExH: []string{"blocked.example"}, ExS: []string{"logout"}, ExR: []string{`\.exe$`}}
		for _, t := range []string{"http://www.site.example/UNIQ/logout", "http://blocked.example/keepme/UNIQ", "http://other.example/keepme/UNIQ.exe", "http://other.example/UNIQ/keepme.png",
			"http://www.site.example/UNIQ/fine.png", "http://web.archive.org/keepme/UNIQ"} {
			run("combined", pos, t, both)
		}
	}
	// --- random combinations
	hosts := []string{"www.site.example", "cdn.site.example", "blocked.example", "other.example", "localhost", "127.0.0.1", "intranet", "web.archive.org", "ads.site.example", "bücher.example", "www.site.example:8080", "u:p@www.site.example", "[2001:db8::1]", "[::1]:8080"}
	pathsq := []string{"/UNIQ/a.png", "/private/UNIQ", "/UNIQ/logout", "/UNIQ?sessionid=2", "/UNIQ/keepme.js", "/UNIQ/x.exe", "/calendar/9UNIQ", "/", "", "/UNIQ/%6cogout", "/UNIQ/a b.png", "/UNIQ/'q'.png"}
	schemes := []string{"http://", "https://", "//", "ftp://", "", "HTTP://"}
	pick := func(l []string, p int) []string {
		var o []string
		for _, e := range l {
			if r.Intn(100) < p {
				o = append(o, e)
			}
		}
		return o
	}
	for i := 0; i < nrand; i++ {
		c := c05cfg{IncH: pick([]string{"www.site.example", "cdn."}, 20), IncS: pick([]string{"keepme", "site"}, 15),
			ExH: pick([]string{"blocked.example", "ads.", "cdn.site"}, 40), ExS: pick([]string{"/private/", "logout", "sessionid="}, 40),
			ExR: pick([]string{`\.(exe|zip)$`, `/calendar/\d+`}, 30)}
		s := schemes[r.Intn(len(schemes))]
		t := ""
		if s == "" {
			t = strings.TrimPrefix(pathsq[r.Intn(len(pathsq))], "/")
			if r.Intn(2) == 0 {
				t = "/" + t
			}
		} else {
			t = s + hosts[r.Intn(len(hosts))] + pathsq[r.Intn(len(pathsq))]
		}
		if r.Intn(6) == 0 {
			t = `"` + t + `"`
		}
		run("random", positions[r.Intn(len(positions))], t, c)
	}
	return nil
}
