package main

import (
	"fmt"
	"math"
	"runtime"
	"strconv"
	"sync"
	"sync/atomic"
	"time"

	"github.com/internetarchive/Zeno/internal/pkg/stats"
	"github.com/internetarchive/Zeno/internal/pkg/verifhook"
	"github.com/internetarchive/Zeno/verifharness/vh"
)

// c17: hammer the real stats package from many goroutines and read it back at quiescence.
//
//	burst  : totals, per-code totals, gauges (up/down), with rate reads and rate resets in between
//	mean   : adds of one constant value racing with resets; at quiescence get, add(v), get
//	gated  : the hook between the two atomic steps of mean.add holds one add while a reset runs
//
// usage: unit-verif c17 <out-trace.ndjson> <goroutines> <ops-per-goroutine> <rounds>
func init() { drivers["c17"] = c17 }

func milli(x float64) int64 { return int64(math.Round(x * 1000)) }

func c17(args []string) error {
	if len(args) != 4 {
		return fmt.Errorf("usage: c17 <out> <g> <n> <rounds>")
	}
	var G, N, R int
	fmt.Sscan(args[1], &G)
	fmt.Sscan(args[2], &N)
	fmt.Sscan(args[3], &R)
	tr, err := vh.NewTracer(args[0])
	if err != nil {
		return err
	}
	defer tr.Close()
	vh.InitConfig("c17", nil)
	codes := []string{"200", "301", "404", "500", "503"}

	// ---- bursts
	baseURLs := stats.GetMapTUI()["Total URL crawled"].(uint64)
	baseSeeds := stats.GetMapTUI()["Finished seeds"].(uint64)
	baseCodes := stats.HTTPReturnCodesTotalsForVerif()
	for round := 1; round <= R; round++ {
		tr.Emit(map[string]any{"ev": "burst.start", "round": round, "g": G, "n": N})
		var wg sync.WaitGroup
		for g := 0; g < G; g++ {
			wg.Add(1)
			go func(g int) {
				defer wg.Done()
				rng := vh.Rand(int64(1700 + round*100 + g))
				cnt := map[string]int{}
				up := [3]int{}
				for i := 0; i < N; i++ {
					switch k := rng.Intn(10); {
					case k < 3:
						stats.URLsCrawledIncr()
						cnt["urls"]++
					case k < 5:
						stats.SeedsFinishedIncr()
						cnt["seeds"]++
					case k < 8:
						c := codes[rng.Intn(len(codes))]
						stats.HTTPReturnCodesIncr(c)
						cnt["c"+c]++
					case k == 8:
						j := rng.Intn(3)
						if up[j] > 0 && rng.Intn(2) == 0 {
							[]func(){stats.PreprocessorRoutinesDecr, stats.ArchiverRoutinesDecr, stats.PostprocessorRoutinesDecr}[j]()
							up[j]--
						} else {
							[]func(){stats.PreprocessorRoutinesIncr, stats.ArchiverRoutinesIncr, stats.PostprocessorRoutinesIncr}[j]()
							up[j]++
						}
					default:
						// readers and rate resets run concurrently; they must not disturb the totals
						switch rng.Intn(4) {
						case 0:
							stats.URLsCrawledGet()
						case 1:
							stats.GetMapTUI()
						case 2:
							stats.URLsCrawledReset()
						case 3:
							stats.HTTPReturnCodesResetAll()
						}
					}
				}
				ev := map[string]any{"ev": "burst.batch", "round": round, "g": g, "urls": cnt["urls"], "seeds": cnt["seeds"],
					"up0": up[0], "up1": up[1], "up2": up[2]}
				for _, c := range codes {
					ev["c"+c] = cnt["c"+c]
				}
				tr.Emit(ev)
			}(g)
		}
		wg.Wait()
		m := stats.GetMapTUI()
		tot := stats.HTTPReturnCodesTotalsForVerif()
		ev := map[string]any{"ev": "burst.read", "round": round,
			"urls": m["Total URL crawled"].(uint64) - baseURLs, "seeds": m["Finished seeds"].(uint64) - baseSeeds,
			"g0": stats.PreprocessorRoutinesGet(), "g1": stats.ArchiverRoutinesGet(), "g2": stats.PostprocessorRoutinesGet()}
		for _, c := range codes {
			ev["c"+c] = tot[c] - baseCodes[c]
		}
		tr.Emit(ev)
	}

	// ---- first increments of a key nobody has used yet, from several goroutines at once
	{
		K, FG := 400*R, 8
		before := stats.HTTPReturnCodesTotalsForVerif()
		// (batches of 40 keys: the goroutines leave a spin barrier together and walk the batch in the same order, so
		// every key of the batch is met for the first time by several of them at nearly the same instant)
		const batch = 40
		for k0 := 0; k0 < K; k0 += batch {
			keys := make([]string, 0, batch)
			for k := k0; k < k0+batch && k < K; k++ {
				keys = append(keys, fmt.Sprintf("9%05d", k))
			}
			var ready, start atomic.Int32
			var wg sync.WaitGroup
			for g := 0; g < FG; g++ {
				wg.Add(1)
				go func() {
					defer wg.Done()
					ready.Add(1)
					for start.Load() == 0 {
					}
					for _, key := range keys {
						stats.HTTPReturnCodesIncr(key)
					}
				}()
			}
			for i := 0; ready.Load() < int32(FG) && i < 2000; i++ {
				time.Sleep(50 * time.Microsecond)
			}
			start.Store(1)
			wg.Wait()
		}
		after := stats.HTTPReturnCodesTotalsForVerif()
		var got uint64
		short := 0
		for k := 0; k < K; k++ {
			key := fmt.Sprintf("9%05d", k)
			n := after[key] - before[key]
			got += n
			if n != uint64(FG) {
				short++
			}
		}
		tr.Emit(map[string]any{"ev": "fresh.read", "keys": K, "g": FG, "expected": K * FG, "got": got, "short": short})
	}

	// ---- gauges under free order: equal numbers of increments and decrements from independent goroutines, the
	// decrementing ones released first.  Whatever the interleaving (also a decrement that overtakes "its" increment, which
	// makes the unsigned gauge wrap for a moment), the gauge must be back at its starting value afterwards.
	{
		incs := []func(){stats.PreprocessorRoutinesIncr, stats.ArchiverRoutinesIncr, stats.PostprocessorRoutinesIncr}
		decs := []func(){stats.PreprocessorRoutinesDecr, stats.ArchiverRoutinesDecr, stats.PostprocessorRoutinesDecr}
		gets := []func() uint64{stats.PreprocessorRoutinesGet, stats.ArchiverRoutinesGet, stats.PostprocessorRoutinesGet}
		const FG = 8
		bad, rounds := 0, 60*R
		var firstDelta int64
		for r := 0; r < rounds; r++ {
			j := r % 3
			base := gets[j]()
			// bring the gauge to zero first (only then can a decrement meet an empty gauge), restore it afterwards
			for i := uint64(0); i < base; i++ {
				decs[j]()
			}
			var ready, start atomic.Int32
			var wg sync.WaitGroup
			for g := 0; g < 2*FG; g++ {
				wg.Add(1)
				go func(g int) {
					defer wg.Done()
					ready.Add(1)
					if g < FG {
						for start.Load() == 0 {
						}
						decs[j]()
					} else {
						for start.Load() < 2 {
						}
						incs[j]()
					}
				}(g)
			}
			for i := 0; ready.Load() < int32(2*FG) && i < 2000; i++ {
				time.Sleep(50 * time.Microsecond)
			}
			start.Store(1)
			if r%2 == 0 {
				runtime.Gosched()
			}
			start.Store(2)
			wg.Wait()
			if d := int64(gets[j]()); d != 0 {
				bad++
				if firstDelta == 0 {
					firstDelta = d
				}
				// put the gauge back to zero so that the next rounds and phases start from a known value
				for gets[j]() != 0 {
					decs[j]()
				}
			}
			for i := uint64(0); i < base; i++ {
				incs[j]()
			}
		}
		if firstDelta > 1000000 || firstDelta < -1000000 {
			firstDelta = 1000000
		}
		tr.Emit(map[string]any{"ev": "gauge.free", "rounds": rounds, "g": FG, "bad": bad, "delta": firstDelta})
	}

	// ---- means racing with resets
	means := []struct {
		name  string
		add   func(time.Duration)
		get   func() float64
		reset func()
	}{
		{"http", stats.MeanHTTPRespTimeAdd, stats.MeanHTTPRespTimeGet, stats.MeanHTTPRespTimeReset},
		{"body", stats.MeanProcessBodyTimeAdd, stats.MeanProcessBodyTimeGet, stats.MeanProcessBodyTimeReset},
		{"feedback", stats.MeanWaitOnFeedbackTimeAdd, stats.MeanWaitOnFeedbackTimeGet, stats.MeanWaitOnFeedbackTimeReset},
	}
	for round := 1; round <= R; round++ {
		mm := means[round%len(means)]
		v := int64(7 + round%50)
		mm.reset()
		var wg sync.WaitGroup
		var adds, resets atomic.Int64
		for g := 0; g < G; g++ {
			wg.Add(1)
			go func(g int) {
				defer wg.Done()
				for i := 0; i < N; i++ {
					if g%4 == 3 {
						mm.reset()
						resets.Add(1)
					} else {
						mm.add(time.Duration(v) * time.Millisecond)
						adds.Add(1)
					}
				}
			}(g)
		}
		wg.Wait()
		m1 := mm.get()
		mm.add(time.Duration(v) * time.Millisecond)
		m2 := mm.get()
		tr.Emit(map[string]any{"ev": "mean.round", "round": round, "mean": mm.name, "v": v, "adds": adds.Load(), "resets": resets.Load(),
			"m1": milli(m1), "m2": milli(m2)})
	}

	// ---- gated: hold one add between its two steps while a reset runs
	for k := 1; k <= 6; k++ {
		stats.MeanHTTPRespTimeReset()
		release := make(chan struct{})
		var parked atomic.Bool
		verifhook.Set(func(point string, a ...any) {
			if point == "stats.mean.add.mid" && parked.CompareAndSwap(false, true) {
				select {
				case <-release:
				case <-time.After(300 * time.Millisecond): // the reset may be unable to run while we are held (repaired code)
				}
			}
		})
		v := int64(10 * k)
		done := make(chan struct{})
		go func() { stats.MeanHTTPRespTimeAdd(time.Duration(v) * time.Millisecond); close(done) }()
		for i := 0; i < 400 && !parked.Load(); i++ {
			time.Sleep(time.Millisecond)
		}
		rdone := make(chan struct{})
		go func() { stats.MeanHTTPRespTimeReset(); close(rdone) }()
		select {
		case <-rdone:
		case <-time.After(100 * time.Millisecond):
		}
		close(release)
		<-done
		<-rdone
		verifhook.Set(nil)
		m1 := stats.MeanHTTPRespTimeGet()
		stats.MeanHTTPRespTimeAdd(time.Duration(v) * time.Millisecond)
		m2 := stats.MeanHTTPRespTimeGet()
		tr.Emit(map[string]any{"ev": "mean.round", "round": 1000 + k, "mean": "http-gated", "v": v, "adds": 1, "resets": 1,
			"m1": milli(m1), "m2": milli(m2)})
	}
	_ = strconv.Itoa
	return nil
}
