package main

import (
	"bufio"
	"encoding/json"
	"fmt"
	"os"
	"sort"
	"sync"
	"sync/atomic"

	"github.com/internetarchive/Zeno/pkg/models"
	"github.com/internetarchive/Zeno/verifharness/vh"
)

// c11: replay operation histories produced by TLC (ItemTreeSpec, VF_HIST lines) on real
// models.Item trees. Every primitive operation is recorded with the projection of the tree
// before and after it, the call's result and the pointer-level well-formedness facts.
//
// usage: unit-verif c11 <histories.ndjson> <out-trace.ndjson>
func init() { drivers["c11"] = c11 }

type c11op struct {
	Op   string    `json:"op"`
	I    int       `json:"i"`
	U    string    `json:"u"`
	St   string    `json:"st"`
	From string    `json:"from"`
	R    *bool     `json:"r"`
	Tree []vh.Node `json:"tree"`
}

// One URL of the model is one canonical string; the text it was found as varies (two spellings of the same query),
// as the references of a real page do.
var c11spell int

func c11url(name string) *models.URL {
	c11spell++
	u := &models.URL{Raw: "http://example.com/x/" + name + []string{"?q=x+y", "?q=x%20y", "?q=x+y"}[c11spell%3]}
	if err := u.Parse(); err != nil {
		panic(err)
	}
	return u
}

func c11(args []string) error {
	if len(args) != 2 {
		return fmt.Errorf("usage: c11 <histories> <out>")
	}
	in, err := os.Open(args[0])
	if err != nil {
		return err
	}
	defer in.Close()
	tr, err := vh.NewTracer(args[1])
	if err != nil {
		return err
	}
	defer tr.Close()
	sc := bufio.NewScanner(in)
	sc.Buffer(make([]byte, 1<<20), 1<<26)
	hn := 0
	idc := 0
	for sc.Scan() {
		var ops []c11op
		if err := json.Unmarshal(sc.Bytes(), &ops); err != nil {
			return fmt.Errorf("history %d: %w", hn, err)
		}
		hn++
		var seed *models.Item
		for k, op := range ops {
			ev := map[string]any{"ev": "op", "h": hn, "k": k + 1, "op": op.Op}
			if op.Op == "new" {
				idc++
				seed = models.NewItem(fmt.Sprintf("id-%d", idc), c11url(op.U), "")
				p := vh.Project(seed, vh.UrlName)
				ev["u"] = op.U
				ev["before"] = []vh.Node{}
				ev["after"] = p.Nodes
				ev["ids"], ev["links"], ev["cc"] = p.IDs, p.Links, p.CC
				tr.Emit(ev)
				continue
			}
			if op.Op == "build" {
				// rebuild a tree state of the model through the public API, then fix the statuses
				var stack []*models.Item
				var all []*models.Item
				for _, n := range op.Tree {
					idc++
					it := models.NewItem(fmt.Sprintf("id-%d", idc), c11url(n.U), "")
					if n.D == 0 {
						seed = it
					} else if err := stack[n.D-1].AddChild(it, models.ItemGotChildren); err != nil {
						return err
					}
					stack = append(stack[:n.D], it)
					all = append(all, it)
				}
				for k, n := range op.Tree {
					st, _ := vh.Status(n.St)
					all[k].SetStatus(st)
				}
				p := vh.Project(seed, vh.UrlName)
				ev["tree"] = op.Tree
				ev["before"] = []vh.Node{}
				ev["after"] = p.Nodes
				ev["ids"], ev["links"], ev["cc"] = p.IDs, p.Links, p.CC
				tr.Emit(ev)
				continue
			}
			before := vh.Project(seed, vh.UrlName)
			ev["before"] = before.Nodes
			var target *models.Item
			if op.I >= 1 && op.I <= len(before.Items) {
				target = before.Items[op.I-1]
			}
			if (op.Op == "remove" || op.Op == "set" || op.Op == "add") && (target == nil || (op.Op == "remove" && target.GetParent() == nil)) {
				// the real tree no longer has the shape the behaviour assumes: stop this history
				ev["err"] = "desync: no node at index"
				ev["i"] = op.I
				ev["after"] = before.Nodes
				ev["ids"], ev["links"], ev["cc"] = before.IDs, before.Links, before.CC
				tr.Emit(ev)
				break
			}
			switch op.Op {
			case "remove":
				ev["i"] = op.I
				target.GetParent().RemoveChild(target)
			case "set":
				st, ok := vh.Status(op.St)
				if !ok {
					return fmt.Errorf("bad status %q", op.St)
				}
				ev["i"], ev["st"] = op.I, op.St
				target.SetStatus(st)
			case "add":
				from, _ := vh.Status(op.From)
				idc++
				child := models.NewItem(fmt.Sprintf("id-%d", idc), c11url(op.U), "")
				ev["i"], ev["u"], ev["from"] = op.I, op.U, op.From
				if err := target.AddChild(child, from); err != nil {
					ev["err"] = err.Error()
				}
			case "dedupe", "dedupe-any":
				if err := seed.DedupeItems(); err != nil {
					ev["err"] = err.Error()
				}
			case "cac", "cac-any":
				ev["r"] = seed.CompleteAndCheck()
			default:
				return fmt.Errorf("unknown op %q", op.Op)
			}
			after := vh.Project(seed, vh.UrlName)
			ev["after"] = after.Nodes
			ev["ids"], ev["links"], ev["cc"] = after.IDs, after.Links, after.CC
			tr.Emit(ev)
		}
	}
	if err := sc.Err(); err != nil {
		return err
	}
	// ---- stage-shaped walks driven by the REAL tree (no model in the loop): each pass does what the stages do -
	// reject some fresh nodes, de-duplicate, mark some as seen, fetch (archived / failed), post-process (redirect
	// target, assets, or completed), then CompleteAndCheck - choosing by what the real tree looks like now.  Every
	// primitive is recorded; a change that only shows after an earlier divergence from the model is still judged here.
	wr := vh.Rand(1111)
	pool := []string{"a", "b", "c", "d", "e", "f"}
	for walk := 0; walk < 400; walk++ {
		hn++
		k := 0
		idc++
		seed := models.NewItem(fmt.Sprintf("id-%d", idc), c11url(pool[wr.Intn(len(pool))]), "")
		emit := func(op string, before vh.Projection, extra map[string]any) {
			k++
			after := vh.Project(seed, vh.UrlName)
			ev := map[string]any{"ev": "op", "h": hn, "k": k, "op": op, "before": before.Nodes, "after": after.Nodes, "ids": after.IDs, "links": after.Links, "cc": after.CC, "walk": true}
			for a, b := range extra {
				ev[a] = b
			}
			tr.Emit(ev)
		}
		index := func(p vh.Projection, it *models.Item) int {
			for i, x := range p.Items {
				if x == it {
					return i + 1
				}
			}
			return 0
		}
		emit("new", vh.Projection{Nodes: []vh.Node{}}, map[string]any{"u": vh.UrlName(seed.GetURL())})
		set := func(it *models.Item, st string) {
			b := vh.Project(seed, vh.UrlName)
			v, _ := vh.Status(st)
			it.SetStatus(v)
			emit("set", b, map[string]any{"i": index(b, it), "st": st})
		}
		for pass := 0; pass < 7; pass++ {
			level, _ := seed.GetNodesAtLevel(seed.GetMaxDepth())
			// preprocess: filters
			for _, it := range level {
				if it.GetStatus() == models.ItemFresh && it.GetParent() != nil && wr.Intn(5) == 0 {
					b := vh.Project(seed, vh.UrlName)
					i := index(b, it)
					it.GetParent().RemoveChild(it)
					emit("remove", b, map[string]any{"i": i})
				}
			}
			b := vh.Project(seed, vh.UrlName)
			seed.DedupeItems()
			emit("dedupe", b, nil)
			level, _ = seed.GetNodesAtLevel(seed.GetMaxDepth())
			fresh := 0
			for _, it := range level {
				if it.GetStatus() != models.ItemFresh {
					continue
				}
				if it.GetParent() != nil && wr.Intn(5) == 0 {
					set(it, "Seen")
					continue
				}
				fresh++
			}
			if fresh == 0 {
				if seed.GetStatus() != models.ItemCompleted {
					set(seed, "Completed") // preprocess: no more work to do
				}
			} else {
				for _, it := range level {
					if it.GetStatus() == models.ItemFresh {
						set(it, "PreProcessed")
					}
				}
				for _, it := range level { // archiver
					if it.GetStatus() == models.ItemPreProcessed {
						if wr.Intn(5) == 0 {
							set(it, "Failed")
						} else {
							set(it, "Archived")
						}
					}
				}
				for _, it := range level { // postprocessor
					if it.GetStatus() != models.ItemArchived {
						continue
					}
					add := func(from string) {
						b := vh.Project(seed, vh.UrlName)
						idc++
						u := pool[wr.Intn(len(pool))]
						child := models.NewItem(fmt.Sprintf("id-%d", idc), c11url(u), "")
						fs, _ := vh.Status(from)
						ex := map[string]any{"i": index(b, it), "u": u, "from": from}
						if err := it.AddChild(child, fs); err != nil {
							ex["err"] = err.Error()
						}
						emit("add", b, ex)
					}
					switch c := wr.Intn(4); {
					case c == 0 && it.GetURL().GetRedirects() < 3:
						add("GotRedirected")
					case c <= 2 && it.GetDepth() < 3:
						for j := 0; j < 1+wr.Intn(3); j++ {
							add("GotChildren")
						}
					default:
						set(it, "Completed")
					}
				}
			}
			b = vh.Project(seed, vh.UrlName)
			r := seed.CompleteAndCheck()
			emit("cac", b, map[string]any{"r": r})
			if r {
				break
			}
		}
	}

	// ---- concurrent use of one node: the mutators lock the children list, so removals, additions and
	// readers running at once must leave exactly the children that were not removed plus the added ones
	r := vh.Rand(1100)
	for round := 0; round < 150; round++ {
		hn++
		idc++
		seed := models.NewItem(fmt.Sprintf("id-%d", idc), c11url("a"), "")
		var kids []*models.Item
		nk := 8 + r.Intn(24)
		for i := 0; i < nk; i++ {
			idc++
			c := models.NewItem(fmt.Sprintf("id-%d", idc), c11url(fmt.Sprintf("k%d", i)), "")
			if err := seed.AddChild(c, models.ItemGotChildren); err != nil {
				return err
			}
			kids = append(kids, c)
		}
		before := vh.Project(seed, vh.UrlName)
		expect := map[string]bool{}
		var remove [][]*models.Item
		g := 2 + r.Intn(5)
		remove = make([][]*models.Item, g)
		for i, c := range kids {
			if r.Intn(3) > 0 {
				remove[i%g] = append(remove[i%g], c)
			} else {
				expect[vh.UrlName(c.GetURL())] = true
			}
		}
		var adds []*models.Item
		for i := 0; i < r.Intn(4); i++ {
			idc++
			c := models.NewItem(fmt.Sprintf("id-%d", idc), c11url(fmt.Sprintf("n%d", i)), "")
			adds = append(adds, c)
			expect[vh.UrlName(c.GetURL())] = true
		}
		var wg sync.WaitGroup
		var panics atomic.Int64
		start := make(chan struct{})
		for i := 0; i < g; i++ {
			wg.Add(1)
			go func(mine []*models.Item) {
				defer wg.Done()
				defer func() {
					if recover() != nil {
						panics.Add(1)
					}
				}()
				<-start
				for _, c := range mine {
					seed.RemoveChild(c)
				}
			}(remove[i])
		}
		wg.Add(2)
		go func() {
			defer wg.Done()
			defer func() {
				if recover() != nil {
					panics.Add(1)
				}
			}()
			<-start
			for _, c := range adds {
				seed.AddChild(c, models.ItemGotChildren)
			}
		}()
		go func() {
			defer wg.Done()
			defer func() { recover() }()
			<-start
			for i := 0; i < 50; i++ {
				_ = len(seed.GetChildren())
			}
		}()
		close(start)
		wg.Wait()
		after := vh.Project(seed, vh.UrlName)
		exp := []string{}
		for u := range expect {
			exp = append(exp, u)
		}
		sort.Strings(exp)
		tr.Emit(map[string]any{"ev": "op", "h": hn, "k": 1, "op": "conc", "before": before.Nodes, "after": after.Nodes, "ids": after.IDs, "links": after.Links, "cc": after.CC,
			"expect": exp, "panics": panics.Load(), "goroutines": g})
	}
	return nil
}
