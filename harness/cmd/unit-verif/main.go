package main

import (
	"fmt"
	"os"
)

var drivers = map[string]func(args []string) error{}

func main() {
	if len(os.Args) < 2 {
		fmt.Fprintln(os.Stderr, "usage: unit-verif <driver> [args]")
		os.Exit(2)
	}
	d, ok := drivers[os.Args[1]]
	if !ok {
		fmt.Fprintln(os.Stderr, "unknown driver", os.Args[1])
		os.Exit(2)
	}
	if err := d(os.Args[2:]); err != nil {
		fmt.Fprintln(os.Stderr, "driver error:", err)
		os.Exit(2)
	}
}
