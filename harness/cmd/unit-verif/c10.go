package main

import (
	"bufio"
	"bytes"
	"encoding/json"
	"fmt"
	"io"
	"net/http"
	"os"
	"strconv"
	"strings"
	"time"

	"github.com/internetarchive/Zeno/internal/pkg/archiver"
	"github.com/internetarchive/Zeno/internal/pkg/config"
	"github.com/internetarchive/Zeno/internal/pkg/postprocessor"
	"github.com/internetarchive/Zeno/internal/pkg/postprocessor/domainscrawl"
	"github.com/internetarchive/Zeno/internal/pkg/preprocessor"
	"github.com/internetarchive/Zeno/pkg/models"
	"github.com/internetarchive/Zeno/verifharness/vh"
)

// c10: every document TLC's Mutation model reaches (a sequence of chunk numbers; negative numbers are
// hostile tokens) is materialised for every sample type and pushed through the real body processing,
// the post-processing dispatch (all extractors) and the normaliser, with a deadline per input.
// Events: x.start(id) before, x.end(id, outcome) after; outcome ok | panic | timeout.
//
// usage: unit-verif c10 <docs.ndjson> <out-trace.ndjson> <from-index> <shard> <nshards>
func init() { drivers["c10"] = c10 }

var c10hostile = []string{"\x00", "<", "{{{{[[[[", "%zz%", strings.Repeat("A", 70000), "\xff\xfe\xfd", "]]>--></script>", "#EXT-X-STREAM-INF:BANDWIDTH=", "99999999999999999999999999", "../../../..//", "\"'`", "http://[::1"}

type c10sample struct {
	name   string
	ctype  string
	server string
	uri    string
	chunks []string
	header string // for header samples: which header carries the document
	status int
}

func c10pdf() []string {
	objs := []string{
		"1 0 obj\n<< /Type /Catalog /Pages 2 0 R >>\nendobj\n",
		"2 0 obj\n<< /Type /Pages /Kids [3 0 R] /Count 1 >>\nendobj\n",
		"3 0 obj\n<< /Type /Page /Parent 2 0 R /MediaBox [0 0 200 200] /Annots [4 0 R] >>\nendobj\n",
		"4 0 obj\n<< /Type /Annot /Subtype /Link /Rect [10 10 100 30] /A << /S /URI /URI (http://example.com/from-pdf) >> >>\nendobj\n",
	}
	head := "%PDF-1.4\n"
	off := len(head)
	offs := []int{}
	body := ""
	for _, o := range objs {
		offs = append(offs, off)
		body += o
		off += len(o)
	}
	xref := fmt.Sprintf("xref\n0 %d\n0000000000 65535 f \n", len(objs)+1)
	for _, o := range offs {
		xref += fmt.Sprintf("%010d 00000 n \n", o)
	}
	trailer := fmt.Sprintf("trailer\n<< /Size %d /Root 1 0 R >>\nstartxref\n%d\n%%%%EOF\n", len(objs)+1, off)
	return []string{head, objs[0], objs[1], objs[2], objs[3], xref, trailer}
}

func c10samples() []c10sample {
	return []c10sample{
		{name: "html", ctype: "text/html; charset=utf-8", uri: "http://example.com/dir/page.html", status: 200, chunks: []string{
			"<!DOCTYPE html><html><head>", "<base href=\"http://example.com/b/\"><link rel=stylesheet href=\"/a.css\">",
			"<style>body{background:url(/bg.png)} .x{background:url('//cdn.example.com/y.png')}</style></head><body>",
			"<img src=\"i.png\" srcset=\"a.png 1x, b.png 2x\" style=\"background:url('s.png')\" data-item='{\"u\":\"http://example.com/di.png\"}'>",
			"<script type=\"application/json\">{\"u\":\"http://example.com/j.js\"}</script><script>var x={\"v\":\"http://example.com/v.mp4\"};</script>",
			"<a href=\"/next?s=1;t=2&u=3\" onclick=\"window.location='/w'\">n</a><meta content=\"http://example.com/m\"><video src=v.mp4></video>", "</body></html>"}},
		// the same page cut finer around the constructs with their own parsing code: inline script payloads,
		// srcset lists, CSS url() values
		{name: "html-script", ctype: "text/html; charset=utf-8", uri: "http://example.com/dir/app.html", status: 200, chunks: []string{
			"<!DOCTYPE html><html><body><script>", "window.__STATE__", "=", "{\"u\":\"http://example.com/s.png\",\"n\":{\"v\":\"/w.js\"}", "}", ";</script>", "</body></html>"}},
		{name: "html-lists", ctype: "text/html; charset=utf-8", uri: "http://example.com/dir/pics.html", status: 200, chunks: []string{
			"<!DOCTYPE html><html><body><img srcset=\"", "a.png 1x", ", ", "b.png 2x\"><picture><source srcset=\"", "c.webp 480w", ", ", "d.webp 800w\"></picture></body></html>"}},
		{name: "json", ctype: "application/json", uri: "http://example.com/api/doc.json", status: 200, chunks: []string{
			"{\"a\":", "\"http://example.com/a.png\",", "\"b\":[", "\"http://example.com/p?u=1;v=2\",{\"c\":\"{\\\"d\\\":\\\"http://example.com/d.css\\\"}\"}", "],", "\"n\":null,\"t\":true", "}"}},
		{name: "xml", ctype: "application/xml", uri: "http://example.com/feed.xml", status: 200, chunks: []string{
			"<?xml version=\"1.0\" encoding=\"UTF-8\"?>", "<root xmlns:m=\"http://ns.example/\">", "<item href=\"http://example.com/a.png\">", "<![CDATA[http://example.com/c]]>",
			"</item><m:x url='http://example.com/x.mp4'/>", "<t>http://example.com/t see http://example.com/u.gif</t>", "</root>"}},
		{name: "sitemap", ctype: "text/xml", uri: "http://example.com/sitemap.xml", status: 200, chunks: []string{
			"<?xml version=\"1.0\"?>", "<urlset xmlns=\"http://www.sitemaps.org/schemas/sitemap/0.9\">", "<url><loc>http://example.com/one</loc>", "<lastmod>2024-01-01</lastmod></url>",
			"<url><loc>http://example.com/two.pdf</loc></url>", "<!-- c -->", "</urlset>"}},
		{name: "s3", ctype: "application/xml", server: "AmazonS3", uri: "http://bucket.example.com/?list-type=2&delimiter=/", status: 200, chunks: []string{
			"<?xml version=\"1.0\"?><ListBucketResult>", "<Name>b</Name><Prefix></Prefix>", "<IsTruncated>true</IsTruncated><NextContinuationToken>tok</NextContinuationToken>",
			"<Contents><Key>a.txt</Key><Size>3</Size></Contents>", "<Contents><Key>z</Key><Size>0</Size></Contents>", "<CommonPrefixes><Prefix>d/</Prefix></CommonPrefixes>", "</ListBucketResult>"}},
		// the listing corners: a truncated page of prefixes only (no keys), with its continuation token in a chunk of its own;
		// the older API (marker paging)
		{name: "s3-prefixes", ctype: "application/xml", server: "AmazonS3", uri: "http://bucket.example.com/?list-type=2&delimiter=/&prefix=d/", status: 200, chunks: []string{
			"<?xml version=\"1.0\"?><ListBucketResult>", "<Name>b</Name><Prefix>d/</Prefix>", "<IsTruncated>true</IsTruncated>", "<NextContinuationToken>tok</NextContinuationToken>",
			"<CommonPrefixes><Prefix>d/e/</Prefix></CommonPrefixes>", "<CommonPrefixes><Prefix>d/f/</Prefix></CommonPrefixes>", "</ListBucketResult>"}},
		{name: "s3-legacy", ctype: "application/xml", server: "AmazonS3", uri: "http://bucket.example.com/?prefix=d/", status: 200, chunks: []string{
			"<?xml version=\"1.0\"?><ListBucketResult>", "<Name>b</Name><Prefix>d/</Prefix>", "<IsTruncated>true</IsTruncated>", "<NextMarker>d/k2</NextMarker>",
			"<Contents><Key>d/k1</Key><Size>3</Size></Contents>", "<Contents><Key>d/k2</Key><Size>4</Size></Contents>", "</ListBucketResult>"}},
		// links cut inside their attribute values: what is spliced in lands inside a URL
		{name: "html-links", ctype: "text/html; charset=utf-8", uri: "http://example.com/dir/links.html", status: 200, chunks: []string{
			"<!DOCTYPE html><html><body><a href=\"", "/p/", "q?x=1", "\">a</a><a href=\"http://", "other.example.org", "/z\">b</a><img src=\"", "i.png\"></body></html>"}},
		{name: "m3u8-master", ctype: "application/vnd.apple.mpegurl", uri: "http://example.com/v/master.m3u8", status: 200, chunks: []string{
			"#EXTM3U\n", "#EXT-X-VERSION:3\n", "#EXT-X-MEDIA:TYPE=AUDIO,GROUP-ID=\"a\",NAME=\"en\",URI=\"a.m3u8\"\n", "#EXT-X-STREAM-INF:BANDWIDTH=1000,AUDIO=\"a\"\n", "v1.m3u8\n",
			"#EXT-X-STREAM-INF:BANDWIDTH=2000\n", "v2.m3u8\n"}},
		{name: "m3u8-media", ctype: "application/x-mpegURL", uri: "http://example.com/v/media.m3u8", status: 200, chunks: []string{
			"#EXTM3U\n", "#EXT-X-TARGETDURATION:10\n", "#EXT-X-KEY:METHOD=AES-128,URI=\"k.key\"\n", "#EXTINF:9.0,\n", "s1.ts\n", "#EXTINF:9.0,\ns2.ts\n", "#EXT-X-ENDLIST\n"}},
		{name: "pdf", ctype: "application/pdf", uri: "http://example.com/doc.pdf", status: 200, chunks: c10pdf()},
		{name: "text", ctype: "text/plain", uri: "http://example.com/notes.txt", status: 200, chunks: []string{
			"see http://example.com/a ", "and https://example.com/b?x=1&y=2 ", "(http://example.com/c) ", "http://example.com/d?p=1;q=2 ", "www.example.com/e ", "http://example.com/f#frag ", "end\n"}},
		{name: "location", ctype: "text/html", uri: "http://example.com/moved", status: 302, header: "Location", chunks: []string{
			"http", "://", "example.com", ":8080", "/new/", "path?x=1;y=2&z=3", "#f"}},
		{name: "link", ctype: "text/html", uri: "http://example.com/linked.html", status: 200, header: "Link", chunks: []string{
			"<http://example.com/next>", "; rel=\"next\"", ", ", "<http://example.com/prev>", "; rel=prev", "; title=\"a, b\"", ", </rel>; foo"}},
		{name: "content-type", ctype: "", uri: "http://example.com/typed", status: 200, header: "Content-Type", chunks: []string{
			"text", "/", "html", ";", " charset", "=", "utf-8"}},
	}
}

func c10(args []string) error {
	if len(args) != 5 {
		return fmt.Errorf("usage: c10 <docs> <out> <from> <shard> <nshards>")
	}
	from, _ := strconv.Atoi(args[2])
	shard, _ := strconv.Atoi(args[3])
	nshards, _ := strconv.Atoi(args[4])
	f, err := os.Open(args[0])
	if err != nil {
		return err
	}
	defer f.Close()
	var docs [][]int
	sc := bufio.NewScanner(f)
	sc.Buffer(make([]byte, 1<<20), 1<<24)
	for sc.Scan() {
		var d []int
		if err := json.Unmarshal(sc.Bytes(), &d); err != nil {
			return err
		}
		docs = append(docs, d)
	}
	tr, err := vh.NewTracer(args[1])
	if err != nil {
		return err
	}
	defer tr.Close()
	tr.Sync = true
	tmp, _ := os.MkdirTemp("", "verif-c10-")
	defer os.RemoveAll(tmp)
	vh.InitConfig("c10", func(c *config.Config) { c.MaxHops = 2 })
	samples := c10samples()
	parent := &models.URL{Raw: "http://example.com/parent/"}
	preprocessor.NormalizeURL(parent, nil)

	render := func(s c10sample, doc []int) string {
		var b strings.Builder
		for _, c := range doc {
			if c > 0 && c <= len(s.chunks) {
				b.WriteString(s.chunks[c-1])
			} else if c < 0 {
				b.WriteString(c10hostile[(-c-1)%len(c10hostile)])
			}
		}
		return b.String()
	}
	// a seeded sample of the materialised inputs is kept for the end-to-end containment run
	var keep *os.File
	if p := os.Getenv("VERIF_C10_KEEP"); p != "" {
		keep, _ = os.Create(p)
		defer keep.Close()
	}
	var pass func(s c10sample, doc []int) int
	// every input is processed twice: with the default settings, and as a domains crawl (--domains-crawl example.com),
	// which routes outlinks through code of its own
	dcEvery := 1 // the domains-crawl pass for every dcEvery-th input (thorough tier: every second one)
	if v, err := strconv.Atoi(os.Getenv("VERIF_C10_DC_EVERY")); err == nil && v > 0 {
		dcEvery = v
	}
	nIn := 0
	one := func(s c10sample, doc []int) (links int) {
		links = pass(s, doc)
		nIn++
		if nIn%dcEvery != 0 {
			return links
		}
		domainscrawl.Reset()
		if err := domainscrawl.AddElements([]string{"example.com"}); err != nil {
			panic(err)
		}
		defer domainscrawl.Reset()
		return links + pass(s, doc)
	}
	pass = func(s c10sample, doc []int) (links int) {
		text := render(s, doc)
		u := &models.URL{Raw: s.uri, Hops: 0}
		if err := preprocessor.NormalizeURL(u, nil); err != nil {
			return 0
		}
		req, _ := http.NewRequest("GET", u.String(), nil)
		u.SetRequest(req)
		hdr := http.Header{}
		if s.ctype != "" {
			hdr.Set("Content-Type", s.ctype)
		}
		if s.server != "" {
			hdr.Set("Server", s.server)
		}
		body := []byte(text)
		if s.header != "" {
			hdr.Set(s.header, text)
			body = []byte("<html><body><a href=\"/x\">x</a></body></html>")
		}
		u.SetResponse(&http.Response{StatusCode: s.status, Header: hdr, Body: io.NopCloser(bytes.NewReader(body)), Request: req})
		if err := archiver.ProcessBody(u, false, false, 2, tmp); err != nil {
			return 0
		}
		item := models.NewItem("c10", u, "")
		item.SetStatus(models.ItemArchived)
		outs := postprocessor.PostprocessItemForVerif(item)
		for _, o := range outs {
			links++
			preprocessor.NormalizeURL(o.GetURL(), nil)
		}
		for _, c := range item.GetChildren() {
			links++
			preprocessor.NormalizeURL(c.GetURL(), u)
		}
		if u.GetBody() != nil {
			u.GetBody().Close()
		}
		return links
	}

	deadline := 10 * time.Second // per input; VERIF_C10_DEADLINE (seconds) for the confirmation of a recorded time-out
	if v, err := strconv.Atoi(os.Getenv("VERIF_C10_DEADLINE")); err == nil && v > 0 {
		deadline = time.Duration(v) * time.Second
	}
	idx := 0
	for di, doc := range docs {
		for si, s := range samples {
			idx++
			if idx <= from || idx%nshards != shard {
				continue
			}
			id := fmt.Sprintf("%s/%d", s.name, di)
			tr.Emit(map[string]any{"ev": "x.start", "id": id, "n": idx, "type": s.name, "doc": doc})
			if keep != nil && (idx*2654435761)%97 == 0 {
				b, _ := json.Marshal(map[string]string{"Type": s.name, "Ctype": s.ctype, "Server": s.server, "Header": s.header, "Body": render(s, doc)})
				keep.Write(append(b, '\n'))
			}
			done := make(chan map[string]any, 1)
			go func(s c10sample, doc []int) {
				defer func() {
					if r := recover(); r != nil {
						done <- map[string]any{"outcome": "panic", "detail": fmt.Sprint(r)[:min(200, len(fmt.Sprint(r)))]}
					}
				}()
				n := one(s, doc)
				done <- map[string]any{"outcome": "ok", "links": n}
			}(samples[si], doc)
			select {
			case res := <-done:
				res["ev"], res["id"], res["n"], res["type"] = "x.end", id, idx, s.name
				tr.Emit(res)
			case <-time.After(deadline):
				tr.Emit(map[string]any{"ev": "x.end", "id": id, "n": idx, "type": s.name, "outcome": "timeout"})
				tr.Close()
				os.Exit(4) // the stuck goroutine cannot be stopped: the caller restarts after this input
			}
		}
	}
	tr.Emit(map[string]any{"ev": "x.done", "n": idx})
	return nil
}
