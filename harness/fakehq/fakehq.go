// Package fakehq is a double of the crawl HQ service (REST endpoints + the websocket handshake the
// client performs at Init) that fails on command and logs everything it is asked.
package fakehq

import (
	"encoding/json"
	"fmt"
	"io"
	"net"
	"net/http"
	"strings"
	"sync"
	"time"

	"github.com/gobwas/ws"
)

type URL struct {
	ID     string `json:"id"`
	Value  string `json:"value"`
	Via    string `json:"via,omitempty"`
	Path   string `json:"path,omitempty"`
	Type   string `json:"type,omitempty"`
	Status string `json:"status"`
}

type Event func(ev map[string]any)

type Server struct {
	mu     sync.Mutex
	emit   Event
	ln     net.Listener
	srv    *http.Server
	urls   []*URL
	seen   map[string]string // value -> type
	faults map[string][]string
	serial int
	Addr   string
}

// Faults installs the fault sequence of an endpoint ("add", "delete", "get", "seencheck"):
// "500" | "503" | "reset" | "timeout" (request applied, answer withheld beyond the client's timeout) |
// "timeout-noapply" | "ok"
func (s *Server) Faults(endpoint string, seq ...string) {
	s.mu.Lock()
	defer s.mu.Unlock()
	s.faults[endpoint] = append(s.faults[endpoint], seq...)
}

func (s *Server) nextFault(endpoint string) string {
	s.mu.Lock()
	defer s.mu.Unlock()
	q := s.faults[endpoint]
	if len(q) == 0 {
		return "ok"
	}
	s.faults[endpoint] = q[1:]
	return q[0]
}

// Feed puts URLs into the queue (as the operator would).
func (s *Server) Feed(value, via, path string) string {
	s.mu.Lock()
	defer s.mu.Unlock()
	s.serial++
	id := fmt.Sprintf("hq-%05d", s.serial)
	s.urls = append(s.urls, &URL{ID: id, Value: value, Via: via, Path: path, Status: "FRESH", Type: "seed"})
	return id
}

func (s *Server) Snapshot() []URL {
	s.mu.Lock()
	defer s.mu.Unlock()
	out := []URL{}
	for _, u := range s.urls {
		out = append(out, *u)
	}
	return out
}

func New(emit Event) (*Server, error) {
	ln, err := net.Listen("tcp", "127.0.0.1:0")
	if err != nil {
		return nil, err
	}
	s := &Server{emit: emit, ln: ln, seen: map[string]string{}, faults: map[string][]string{}, Addr: ln.Addr().String()}
	mux := http.NewServeMux()
	mux.HandleFunc("/api/ws", func(w http.ResponseWriter, r *http.Request) {
		conn, _, _, err := ws.UpgradeHTTP(r, w)
		if err != nil {
			return
		}
		go func() { io.Copy(io.Discard, conn); conn.Close() }()
	})
	mux.HandleFunc("/api/projects/", s.handle)
	s.srv = &http.Server{Handler: mux}
	go s.srv.Serve(ln)
	return s, nil
}

func (s *Server) Close() { s.srv.Close() }

// fail applies the transport-level part of a fault; it returns true when the handler is done.
func (s *Server) fail(w http.ResponseWriter, r *http.Request, fault string) bool {
	switch fault {
	case "500", "503":
		w.WriteHeader(map[string]int{"500": 500, "503": 503}[fault])
		return true
	case "reset":
		if hj, ok := w.(http.Hijacker); ok {
			c, _, _ := hj.Hijack()
			c.Close()
		}
		return true
	case "timeout", "timeout-noapply":
		select {
		case <-time.After(6500 * time.Millisecond):
		case <-r.Context().Done():
		}
		return true
	}
	return false
}

func (s *Server) handle(w http.ResponseWriter, r *http.Request) {
	parts := strings.Split(strings.Trim(r.URL.Path, "/"), "/") // api projects P urls|seencheck|reset [id]
	if len(parts) < 4 {
		w.WriteHeader(404)
		return
	}
	body, _ := io.ReadAll(r.Body)
	switch {
	case parts[3] == "urls" && r.Method == http.MethodGet:
		fault := s.nextFault("get")
		if fault != "ok" {
			s.emit(map[string]any{"ev": "hq.get", "fault": fault, "applied": false, "urls": []any{}})
			s.fail(w, r, fault)
			return
		}
		size := 1
		fmt.Sscan(r.URL.Query().Get("size"), &size)
		s.mu.Lock()
		out := []URL{}
		for _, u := range s.urls {
			if u.Status == "FRESH" && len(out) < size {
				u.Status = "CLAIMED"
				out = append(out, *u)
			}
		}
		s.mu.Unlock()
		if len(out) == 0 {
			w.WriteHeader(204)
			return
		}
		evs := []map[string]any{}
		for _, u := range out {
			evs = append(evs, map[string]any{"id": u.ID, "value": u.Value, "via": u.Via, "path": u.Path, "hops": strings.Count(u.Path, "L")})
		}
		s.emit(map[string]any{"ev": "hq.get", "fault": "ok", "applied": true, "urls": evs})
		w.Header().Set("Content-Type", "application/json")
		json.NewEncoder(w).Encode(out)
	case parts[3] == "urls" && r.Method == http.MethodPost:
		var p struct {
			URLs []URL `json:"urls"`
		}
		json.Unmarshal(body, &p)
		fault := s.nextFault("add")
		applied := fault == "ok" || fault == "timeout"
		evs := []map[string]any{}
		for _, u := range p.URLs {
			evs = append(evs, map[string]any{"value": u.Value, "via": u.Via, "path": u.Path, "hops": strings.Count(u.Path, "L"),
				"pathok": u.Path == strings.Repeat("L", strings.Count(u.Path, "L"))})
		}
		if applied {
			s.mu.Lock()
			for _, u := range p.URLs {
				dup := false
				for _, e := range s.urls {
					if e.Value == u.Value {
						dup = true
					}
				}
				if !dup {
					s.serial++
					s.urls = append(s.urls, &URL{ID: fmt.Sprintf("hq-%05d", s.serial), Value: u.Value, Via: u.Via, Path: u.Path, Status: "FRESH", Type: "seed"})
				}
			}
			s.mu.Unlock()
		}
		s.emit(map[string]any{"ev": "hq.add", "fault": fault, "applied": applied, "urls": evs})
		if s.fail(w, r, fault) {
			return
		}
		w.WriteHeader(201)
	case parts[3] == "urls" && r.Method == http.MethodDelete:
		var p struct {
			URLs []URL `json:"urls"`
		}
		json.Unmarshal(body, &p)
		fault := s.nextFault("delete")
		applied := fault == "ok" || fault == "timeout"
		ids := []string{}
		for _, u := range p.URLs {
			ids = append(ids, u.ID)
		}
		if applied {
			s.mu.Lock()
			kept := s.urls[:0]
			for _, e := range s.urls {
				del := false
				for _, id := range ids {
					if e.ID == id {
						del = true
					}
				}
				if !del {
					kept = append(kept, e)
				}
			}
			s.urls = kept
			s.mu.Unlock()
		}
		s.emit(map[string]any{"ev": "hq.delete", "fault": fault, "applied": applied, "ids": ids})
		if s.fail(w, r, fault) {
			return
		}
		w.WriteHeader(204)
	case parts[3] == "seencheck":
		var in []URL
		json.Unmarshal(body, &in)
		fault := s.nextFault("seencheck")
		if fault != "ok" {
			s.emit(map[string]any{"ev": "hq.seencheck", "fault": fault, "sent": []any{}, "fresh": []string{}})
			s.fail(w, r, fault)
			return
		}
		s.mu.Lock()
		out := []URL{}
		sent := []map[string]any{}
		fresh := []string{}
		for _, u := range in {
			sent = append(sent, map[string]any{"value": u.Value, "type": u.Type})
			old, ok := s.seen[u.Value]
			if !ok || (old == "asset" && u.Type == "seed") {
				s.seen[u.Value] = u.Type
				out = append(out, u)
				fresh = append(fresh, u.Value)
			}
		}
		s.mu.Unlock()
		s.emit(map[string]any{"ev": "hq.seencheck", "fault": "ok", "sent": sent, "fresh": fresh})
		if len(out) == 0 {
			w.WriteHeader(204)
			return
		}
		w.Header().Set("Content-Type", "application/json")
		json.NewEncoder(w).Encode(out)
	case parts[3] == "reset":
		id := ""
		if len(parts) > 4 {
			id = parts[4]
		}
		s.mu.Lock()
		for _, e := range s.urls {
			if e.ID == id {
				e.Status = "FRESH"
			}
		}
		s.mu.Unlock()
		s.emit(map[string]any{"ev": "hq.reset", "id": id})
		w.WriteHeader(200)
	default:
		w.WriteHeader(404)
	}
}
