"""C07 - page requisites in standard HTML attributes are all fetched, correctly resolved.

1. TLC, exhaustive: Requisites.tla - for every class of reference (tag.attribute, rel, tag disabled,
   capture-alternate-pages, disable-assets-capture, hop limit) the statement's Required implies the code's
   Extracts; the enumeration is the coverage skeleton for the documents.
2. The real pipeline crawls generated HTML pages from the scripted origin.  For every reference the target
   absolute URL is chosen first and a form is rendered that a browser resolves to it (same directory, ./, ../,
   path-absolute, scheme-relative, with query, percent-escape, empty path segment, absolute), with double, single
   or no quotes, srcset descriptors, url() quoting in <style> and style="", decoy text - under four
   configurations (default; img+style disabled with alternate pages; assets capture off; script/link/source/
   video/audio disabled with hop limit 0).
3. TLC (C07_Mon) recomputes the required set from the page description and the configuration and compares it
   with the origin's request log and the produced outlinks at the moment the seed is reported finished.
"""
import os
import subprocess

import vf
from c01 import pipeline

LEVEL = "model_checking"


def run(ctx):
    quick = ctx.tier == "quick"
    r = ctx.tlc("Requisites", "C07_req.cfg", workers=4, name="req")
    ctx.log("requisites model: %d classes ok=%s" % (r.distinct, r.ok))
    if not r.ok:
        print(r.out[-3000:])
        raise vf.Inconclusive("Requisites model violates %s (specification error)" % r.violated)
    ctx.build_harness(("zeno-verif",))
    if ctx.replay:
        traces = [("replay", ctx.replay)]
    else:
        n = 60 if quick else 700
        procs = [pipeline(ctx, "v" + v, "c07", [v, n]) for v in "ABCDEFG"]
        traces = []
        for p, t, d in procs:
            try:
                out, err = p.communicate(timeout=1500)
            except subprocess.TimeoutExpired:
                p.kill()
                raise vf.Inconclusive("pipeline run timed out")
            if p.returncode != 0:
                print(err[-2000:])
                ctx.log("pipeline process exited %d" % p.returncode)
            subprocess.run(["rm", "-rf", d])
            traces.append((os.path.basename(t), t))
    nev = nref = 0
    classes = set()
    for name, t in traces:
        events = vf.read_ndjson(t)
        nev += len(events)
        if not any(e["ev"] == "run.end" for e in events):
            ctx.report("pipeline process died before the run ended", replay_src=t, tag="crash", key="pipeline crashed")
        for e in events:
            if e["ev"] == "doc":
                nref += len(e["planted"])
                for p in e["planted"]:
                    classes.add((p["tag"], p["attr"], p["rel"], p["form"], p["quote"]))
        for mod, cfg in (("C07_Mon", "C07_mon.cfg"), ("C01_Mon", "C01_mon.cfg")):
            mon = ctx.validate(mod, cfg, t, name="%s-%s" % (mod, name), timeout=2400, heap="8g")
            if mon["hwm"] < mon["total"]:
                raise vf.Inconclusive("%s stopped at line %d of %d" % (mod, mon["hwm"], mon["total"]))
            for v in mon["viols"]:
                e = events[v["l"] - 1]
                ctx.report("%s [%s seed %s]" % (v["why"], name, e.get("id")), replay_src=t, tag="run", key=v["why"])
    ctx.cov.update({
        "states": r.distinct, "transitions": r.generated, "exhaustive": True,
        "traces_validated_against_impl": len(traces),
        "evaluations": nref, "distinct_nontrivial": len(classes),
        "rule": "evaluations = planted references crawled by the real pipeline; distinct = (tag, attribute, rel, form, quoting) classes instantiated; trace events %d" % nev,
        "samples": sorted(classes)[:8],
    })
    ctx.assumptions += [
        "'as a browser would' holds by construction: the target is chosen first, the rendered form is one a browser resolves to it (pages have no <base>)",
        "extra fetches (decoys) are not judged; only required references must be fetched / queued",
    ]
