"""C08 - seen URLs are not refetched; nothing is skipped as seen unless the store said so.

1. TLC, exhaustive: Seencheck.tla (store lookups and writes as separate steps of concurrent workers, promotion
   asset -> seed): HonourOK (a record complete before a check started is honoured) and SkipOK (nothing is
   skipped without a record).  The two-step variant (Atomic = FALSE) yields the downgrade race; that schedule
   is replayed on the real code through the hook between lookup and record ("gated" rounds).
2. The real LevelDB store and real canonical strings: fresh URL objects from text (several spellings of one
   URL, multi-parameter / valueless / oddly encoded queries), sequential histories, concurrent rounds, the gated
   race, and whole trees after NormalizeURL + DedupeItems + SeencheckItem.
3. TLC (C08_Mon) judges every call with interval reasoning (what had to be visible / what could be visible).
The crawl-HQ variant of the seencheck is checked together with the HQ queue protocol (see C15 / HQ harness).
"""
import os

import vf

LEVEL = "model_checking"


def run(ctx):
    quick = ctx.tier == "quick"
    states = trans = 0
    for cfg in ("C08_exh.cfg", "C08_exh2.cfg"):
        r = ctx.tlc("SeencheckMC", cfg, workers=8, name="exh-" + cfg[:-4])
        if not r.ok:
            print(r.out[-3000:])
            raise vf.Inconclusive("Seencheck model violates %s (specification error)" % r.violated)
        states += r.distinct
        trans += r.generated
    ctx.log("exhaustive: %d distinct states" % states)
    ctx.build_harness()
    tpath = os.path.join(ctx.scratch, "c08.ndjson")
    if ctx.replay:
        tpath = ctx.replay
    else:
        a, b = (600, 25) if quick else (8000, 400)
        ctx.run_bin("unit-verif", ["c08", tpath, str(a), str(b)], timeout=1800)
    events = vf.read_ndjson(tpath)
    mon = ctx.validate("C08_Mon", "C08_mon.cfg", tpath, name="mon", timeout=3000, heap="8g")
    if mon["hwm"] < mon["total"]:
        raise vf.Inconclusive("C08_Mon stopped at line %d of %d" % (mon["hwm"], mon["total"]))
    calls = {e["id"]: e for e in events if e["ev"] == "call"}
    for v in mon["viols"]:
        e = events[v["l"] - 1]
        c = calls.get(e.get("id"), {})
        rp = os.path.join(ctx.scratch, "viol-%d.ndjson" % v["l"])
        vf.write_ndjson(rp, events[: v["l"]])
        ctx.report("%s call=%s ret=%s" % (v["why"], {k: c.get(k) for k in ("tag", "nodes")}, e.get("st", e.get("nodes"))), replay_src=rp, tag="hist",
                   key="%s tag=%s" % (v["why"], c.get("tag", e["ev"])))
    tags = {}
    for c in calls.values():
        tags[c["tag"]] = tags.get(c["tag"], 0) + 1
    canon = {n["c"] for c in calls.values() for n in c["nodes"]}
    ctx.cov.update({
        "states": states, "transitions": trans, "exhaustive": True,
        "traces_validated_against_impl": 1,
        "evaluations": sum(len(c["nodes"]) for c in calls.values()), "distinct_nontrivial": len(canon),
        "rule": "evaluations = node checks against the real LevelDB store; distinct = distinct canonical URLs; calls by kind %s; trees %d" % (tags, sum(1 for e in events if e["ev"] == "tree")),
        "samples": [events[0], events[1]],
    })
    ctx.assumptions += [
        "a seed-type check over a record that is only 'asset' may or may not be skipped (the statement's exception)",
        "crawl-HQ seencheck is not part of this check",
    ]
