"""C08 - seen URLs are not refetched; nothing is skipped as seen unless the store said so.

1. TLC, exhaustive: Seencheck.tla (store lookups and writes as separate steps of concurrent workers, promotion
   asset -> seed): HonourOK (a record complete before a check started is honoured) and SkipOK (nothing is
   skipped without a record).  The two-step variant (Atomic = FALSE) yields the downgrade race; that schedule
   is replayed on the real code through the hook between lookup and record ("gated" rounds).
2. The real LevelDB store and real canonical strings: fresh URL objects from text (several spellings of one
   URL, multi-parameter / valueless / oddly encoded queries), sequential histories, concurrent rounds, the gated
   race, and whole trees after NormalizeURL + DedupeItems + SeencheckItem.
3. TLC (C08_Mon) judges every call with interval reasoning (what had to be visible / what could be visible).
4. The crawl-HQ variant (hq.SeencheckItem) runs the same histories against a fake HQ seen-store (keyed by the
   text it is sent, asset -> seed promotion) and is judged by the same monitor.
"""
import os

import vf

LEVEL = "model_checking"


def run(ctx):
    quick = ctx.tier == "quick"
    states = trans = 0
    for cfg in ("C08_exh.cfg", "C08_exh2.cfg"):
        r = ctx.tlc("SeencheckMC", cfg, workers=8, name="exh-" + cfg[:-4])
        if not r.ok:
            print(r.out[-3000:])
            raise vf.Inconclusive("Seencheck model violates %s (specification error)" % r.violated)
        states += r.distinct
        trans += r.generated
    ctx.log("exhaustive: %d distinct states" % states)
    ctx.build_harness()
    tpath = os.path.join(ctx.scratch, "c08.ndjson")
    hpath = os.path.join(ctx.scratch, "c08hq.ndjson")
    if ctx.replay:
        parts = [("replay", ctx.replay)]
    else:
        a, b = (600, 25) if quick else (8000, 400)
        ctx.run_bin("unit-verif", ["c08", tpath, str(a), str(b)], timeout=1800)
        ctx.run_bin("unit-verif", ["c08hq", hpath, str(a // 2), str(b)], timeout=1800)
        parts = [("local", tpath), ("hq", hpath)]
    events = []
    calls = {}
    for part, path in parts:
        evs = vf.read_ndjson(path)
        events += evs
        mon = ctx.validate("C08_Mon", "C08_mon.cfg", path, name="mon-" + part, timeout=3000, heap="8g")
        if mon["hwm"] < mon["total"]:
            raise vf.Inconclusive("C08_Mon stopped at line %d of %d" % (mon["hwm"], mon["total"]))
        pcalls = {e["id"]: e for e in evs if e["ev"] == "call"}
        calls.update({(part, k): v for k, v in pcalls.items()})
        for v in mon["viols"]:
            e = evs[v["l"] - 1]
            c = pcalls.get(e.get("id"), {})
            rp = os.path.join(ctx.scratch, "viol-%s-%d.ndjson" % (part, v["l"]))
            vf.write_ndjson(rp, evs[: v["l"]])
            ctx.report("%s call=%s ret=%s" % (v["why"], {k: c.get(k) for k in ("tag", "nodes")}, e.get("st", e.get("nodes"))), replay_src=rp, tag="hist",
                       key="%s tag=%s" % (v["why"], c.get("tag", e["ev"])))
    tags = {}
    for c in calls.values():
        tags[c["tag"]] = tags.get(c["tag"], 0) + 1
    canon = {n["c"] for c in calls.values() for n in c["nodes"]}
    ctx.cov.update({
        "states": states, "transitions": trans, "exhaustive": True,
        "traces_validated_against_impl": len(parts),
        "evaluations": sum(len(c["nodes"]) for c in calls.values()), "distinct_nontrivial": len(canon),
        "rule": "evaluations = node checks against the real LevelDB store; distinct = distinct canonical URLs; calls by kind %s; trees %d" % (tags, sum(1 for e in events if e["ev"] == "tree")),
        "samples": [events[0], events[1]],
    })
    ctx.assumptions += [
        "a seed-type check over a record that is only 'asset' may or may not be skipped (the statement's exception)",
        "crawl-HQ variant: the service is a double that keys its seen-store by the text it is sent and answers with the texts it was sent",
    ]
