"""C13 - per-host politeness: bounded request rate and honoured back-off penalties.

1. TLC, exhaustive: RateLimiter (one action per critical section of the token bucket, discrete virtual
   time, all interleavings of tick / acquire / 429-class failure / 5xx failure / success with up to two
   requests in flight) satisfies TokensOK, RateOK, WindowOK (shadow token bucket) and PenaltyOK, for a
   configured rate above and below 0.5/s.
2. Real tokenBucket objects run under an injected virtual clock: Wait() itself polls, the hook at its poll
   point moves the clock to the instants where the outcome can change (+-1 ms around the end of a penalty
   and the moment a token is due), the hook at its take point (under the mutex) records each release.
   Random histories, failure streaks beyond 32, 5xx streaks, and concurrent waiters on a real clock.
3. TLC validates the recording against C13_Mon (the statement) and TraceC13 (the model's formulas).
"""
import os

import vf

LEVEL = "model_checking"


def manager_table(ctx, quick, which):
    """The per-host table (BucketManager) in real time: unit-verif c13mgr, judged by C13M_Mon.
    which: substrings of the violation texts this caller is responsible for (C13: penalties, C16: the bound)."""
    mpath = os.path.join(ctx.scratch, "c13mgr.ndjson")
    if ctx.replay:
        if not open(ctx.replay).readline().startswith('{"ev":"mgr.') and '"mgr.' not in open(ctx.replay).readline():
            return 0
        mpath = ctx.replay
    else:
        ctx.run_bin("unit-verif", ["c13mgr", mpath, "6" if quick else "40"], timeout=600)
    mev = vf.read_ndjson(mpath)
    mon = ctx.validate("C13M_Mon", "C13M_mon.cfg", mpath, name="mon-mgr")
    if mon["hwm"] < mon["total"]:
        raise vf.Inconclusive("C13M_Mon stopped at line %d of %d" % (mon["hwm"], mon["total"]))
    for v in mon["viols"]:
        if not any(w in v["why"] for w in which):
            continue
        e = mev[v["l"] - 1]
        rp = os.path.join(ctx.scratch, "viol-mgr-%s.ndjson" % e["sc"])
        vf.write_ndjson(rp, [x for x in mev if x["sc"] == e["sc"]])
        ctx.report("%s (scenario %s, event %s)" % (v["why"], e["sc"], {k: e[k] for k in e if k not in ("seq",)}), replay_src=rp, tag="mgr", key=v["why"])
    return len(mev)


def run(ctx):
    quick = ctx.tier == "quick"
    states = trans = 0
    for cfg in (("C13_exh_q.cfg", "C13_exh_q_low.cfg") if quick else ("C13_exh_t.cfg", "C13_exh_t_low.cfg")):
        r = ctx.tlc("RateLimiter", cfg, timeout=1500, name="exh-" + cfg[:-4])
        ctx.log("exhaustive %s: %d generated, %d distinct, %.1fs ok=%s" % (cfg, r.generated, r.distinct, r.wall, r.ok))
        if not r.ok:
            print(r.out[-3000:])
            raise vf.Inconclusive("RateLimiter model violates %s (specification error)" % r.violated)
        states += r.distinct
        trans += r.generated
    ctx.build_harness()
    tpath = os.path.join(ctx.scratch, "c13.ndjson")
    if ctx.replay and any('"c13.cfg"' in ln for ln in open(ctx.replay)):
        pm = ctx.validate("C13P_Mon", "C13P_mon.cfg", ctx.replay, name="pmon-replay")
        for v in pm["viols"]:
            ctx.report("%s (pipeline replay)" % v["why"], replay_src=ctx.replay, tag="pipe", key="pipeline: " + v["why"])
        ctx.cov.update({"states": states, "transitions": trans, "traces_validated_against_impl": 1, "samples": ["replay of a sequential crawl"]})
        return
    if ctx.replay and '"mgr.' in open(ctx.replay).readline():
        manager_table(ctx, quick, ("penalised host",))
        ctx.cov.update({"states": states, "transitions": trans, "traces_validated_against_impl": 1, "samples": ["replay of a per-host table scenario"]})
        return
    if ctx.replay:
        tpath = ctx.replay
    else:
        n, ns = (120, 6) if quick else (1500, 40)
        ctx.run_bin("unit-verif", ["c13", tpath, str(n), str(ns)], timeout=1500)
    events = vf.read_ndjson(tpath)
    impl = ctx.validate("TraceC13", "C13_trace.cfg", tpath, name="impl")
    for d in impl["drift"][:20]:
        e = events[d["l"] - 1]
        ctx.note_drift("%s b=%s t=%s code=%s" % (e["op"], e["b"], e["t"], e.get("code")))
    mon = ctx.validate("C13_Mon", "C13_mon.cfg", tpath, name="mon")
    if mon["hwm"] < mon["total"] or impl["hwm"] < impl["total"]:
        raise vf.Inconclusive("trace validation stopped early (%s/%s, %s/%s)" % (mon["hwm"], mon["total"], impl["hwm"], impl["total"]))
    kinds = {}
    for e in events:
        if e["op"] == "new":
            kinds[e["b"]] = (e["kind"], e["cap"], e["ideal"])
    for v in mon["viols"]:
        e = events[v["l"] - 1]
        kind = kinds.get(e["b"], ("?",))
        # replay: the offending scenario's events
        rp = os.path.join(ctx.scratch, "viol-b%s.ndjson" % e["b"])
        vf.write_ndjson(rp, [x for x in events if x["b"] == e["b"]])
        ctx.report("%s (scenario %s %s, event %s)" % (v["why"], e["b"], kind, {k: e[k] for k in ("op", "t", "tokens", "rate", "ideal", "pen", "fc", "code") if k in e}),
                   replay_src=rp, tag="scn", key="%s kind=%s" % (v["why"], kind[0]))
    nmgr = manager_table(ctx, quick, ("penalised host", ))
    # the archiver's use of the limiter: sequential crawls, one refused URL per host, for --max-retry 0 and 1
    npipe = 0
    if not ctx.replay:
        import subprocess
        from c01 import pipeline
        ctx.build_harness(("zeno-verif",))
        procs = [(mr, pipeline(ctx, "mr%d" % mr, "c13", [mr])) for mr in ((0, 1) if quick else (0, 1, 2))]
        for mr, (p, t, d) in procs:
            try:
                p.communicate(timeout=600)
            except subprocess.TimeoutExpired:
                p.kill()
                raise vf.Inconclusive("pipeline run timed out")
            subprocess.run(["rm", "-rf", d])
            pev = vf.read_ndjson(t)
            if not any(e["ev"] == "run.end" for e in pev):
                raise vf.Inconclusive("pipeline run (max-retry %d) did not end" % mr)
            npipe += 1
            pm = ctx.validate("C13P_Mon", "C13P_mon.cfg", t, name="pmon-%d" % mr)
            if pm["hwm"] < pm["total"]:
                raise vf.Inconclusive("C13P_Mon stopped at line %d of %d" % (pm["hwm"], pm["total"]))
            for v in pm["viols"]:
                e = pev[v["l"] - 1]
                ctx.report("%s (--max-retry %d, request %s)" % (v["why"], mr, e.get("url")), replay_src=t, tag="pipe", key="pipeline: " + v["why"])
    rel = [e for e in events if e["op"] == "take"]
    ctx.cov.update({
        "states": states, "transitions": trans, "exhaustive": True,
        "traces_validated_against_impl": len(kinds),
        "evaluations": len(events), "distinct_nontrivial": len({(e["b"], e["t"]) for e in rel}),
        "rule": "events of real tokenBucket scenarios; non-trivial = distinct releases; scenario kinds: %s; per-host table events (real time): %d" % (sorted({k[0] for k in kinds.values()}), nmgr),
        "max_failure_streak": max([e["fc"] for e in events] + [0]),
        "impl_spec_accepted": not impl["drift"],
        "samples": [events[0], rel[len(rel) // 2]] + [e for e in events if e["op"] == "fail"][:1],
    })
    ctx.assumptions += [
        "window bound checked as conformance to a (capacity, configured-rate) token bucket, which is equivalent to the all-windows statement for instantaneous releases",
        "the penalty demanded is counted over the current run of 429/403/408/425 failures since the last success (a lower bound on what the code applies)",
        "float64 arithmetic compared in micro-units with tolerance (2 + dt micro-tokens)",
        "concurrent-waiter scenario uses the real clock with a tolerance of 100 ms * rate on the window bound",
    ]
