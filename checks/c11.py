"""C11 - the item tree stays well-formed and completion is detected exactly.

1. TLC, exhaustive: ItemTreeSpec (pipeline-shaped operation sequences on one seed's tree, every
   data-dependent choice nondeterministic) satisfies TreeOK / NoPanic / DedupeOK / CacOK for all trees
   up to MaxNodes nodes over 3 URLs.
2. spec -> code: TLC simulation behaviours (operation histories) are replayed on real models.Item
   trees by `unit-verif c11`; every primitive operation is recorded with the tree before/after.
3. code -> spec: the recording is validated by TLC against TraceC11 (ImplSpec conformance; mismatches are
   drift) and against C11_Mon (the property; rejections are violations).
"""
import json
import os

import tlaval
import vf

LEVEL = "model_checking"


def histories(ctx, num, depth, cfg, name):
    r = ctx.tlc("ItemTreeSpec", cfg, workers=1, simulate=num, depth=depth, deadlock=False, name=name)
    hs = []
    seen = set()
    for line in r.out.splitlines():
        if line.startswith('<<"VF_HIST"'):
            v = tlaval.parse(line.strip())
            if v[1] not in seen:
                seen.add(v[1])
                hs.append(v[1])
    if not hs:
        print(r.out[-3000:])
        raise vf.Inconclusive("TLC simulation produced no behaviours")
    return hs


def replay_and_validate(ctx, hs, tag):
    hpath = os.path.join(ctx.scratch, "hist-%s.ndjson" % tag)
    with open(hpath, "w") as f:
        for h in hs:
            f.write(h + "\n")
    tpath = os.path.join(ctx.scratch, "trace-%s.ndjson" % tag)
    ctx.run_bin("unit-verif", ["c11", hpath, tpath])
    events = vf.read_ndjson(tpath)
    # ImplSpec conformance
    impl = ctx.validate("TraceC11", "C11_trace.cfg", tpath, name="impl-" + tag)
    if impl["hwm"] < impl["total"]:
        raise vf.Inconclusive("TraceC11 stopped at line %d of %d" % (impl["hwm"], impl["total"]))
    for d in impl["drift"][:30]:
        e = events[d["l"] - 1]
        ctx.note_drift("%s h=%s k=%s" % (e["op"], e["h"], e["k"]))
    # the part of each history up to (and including) its first non-conforming event is judged
    first_drift = {}
    for d in impl["drift"]:
        h = events[d["l"] - 1]["h"]
        first_drift.setdefault(h, d["l"])
    # (walks are driven by the real tree, not by the model's indices: all their events are judged)
    kept = [e for i, e in enumerate(events) if e.get("walk") or e["h"] not in first_drift or (i + 1) <= first_drift[e["h"]]]
    mpath = os.path.join(ctx.scratch, "mon-%s.ndjson" % tag)
    vf.write_ndjson(mpath, kept)
    mon = ctx.validate("C11_Mon", "C11_mon.cfg", mpath, name="mon-" + tag)
    if mon["hwm"] < mon["total"]:
        raise vf.Inconclusive("C11_Mon stopped at line %d of %d" % (mon["hwm"], mon["total"]))
    for v in mon["viols"]:
        e = kept[v["l"] - 1]
        # replay file: the offending history alone
        hist = hs[e["h"] - 1] if e["h"] <= len(hs) else "[]"   # concurrent rounds follow the histories and need none
        rp = os.path.join(ctx.scratch, "viol-%s-h%d.ndjson" % (tag, e["h"]))
        with open(rp, "w") as f:
            f.write(hist + "\n")
        ctx.report("%s (history %d, op %d: %s)" % (v["why"], e["h"], e["k"], json.dumps({k: e[k] for k in ("op", "before", "after") if k in e})[:400]),
                   replay_src=rp, tag="hist", key=v["why"])
    return len(events), len(kept), impl, mon


def run(ctx):
    quick = ctx.tier == "quick"
    if ctx.replay:
        ctx.build_harness()
        hs = [l.strip() for l in open(ctx.replay) if l.strip()]
        replay_and_validate(ctx, hs, "replay")
        ctx.cov.update({"states": 1, "transitions": 1, "traces_validated_against_impl": len(hs), "samples": hs[:3]})
        return
    # 1. exhaustive model check of the ImplSpec
    cfg = "C11_exh.cfg" if quick else "C11_exh_big.cfg"
    r = ctx.tlc("ItemTreeSpec", cfg, timeout=3000, name="exh")
    ctx.log("exhaustive %s: %d generated, %d distinct, depth %d, %.1fs, ok=%s" % (cfg, r.generated, r.distinct, r.depth, r.wall, r.ok))
    model_cex = None
    if not r.ok:
        # A counterexample on the model is a schedule to replay, never a verdict by itself.
        print(r.out[-3000:])
        model_cex = r.violated or "error"
    # 2a. one implementation test per DedupeItems / CompleteAndCheck transition of the exhaustive model
    ctx.build_harness()
    dcfg = "C11_exh_dump.cfg"
    rd = ctx.tlc("ItemTreeSpec", dcfg, workers=1, timeout=3000, name="dump")
    tests, seen = [], set()
    for line in rd.out.splitlines():
        for tag, op in (("VF_DD", "dedupe"), ("VF_CAC", "cac")):
            if line.startswith('<<"%s"' % tag):
                tj = tlaval.parse(line.strip())[1]
                if (op, tj) not in seen:
                    seen.add((op, tj))
                    tests.append('[{"op":"build","tree":%s},{"op":"%s"}]' % (tj, op))
    if not tests:
        raise vf.Inconclusive("no transitions dumped by TLC")
    ctx.log("%d distinct dedupe/completion transitions dumped by TLC (%d states)" % (len(tests), rd.distinct))
    nev0, nkept0, impl0, mon0 = replay_and_validate(ctx, tests, "trans")
    ctx.log("transition tests: %d events; drift=%d, monitor violations=%d" % (nev0, len(impl0["drift"]), len(mon0["viols"])))
    # 2a'. ALL consistent trees of up to 4 nodes (every URL / status assignment), reachable through the stages or not
    ra = ctx.tlc("ItemTreeAll", "C11_all.cfg" if quick else "C11_all_t.cfg", workers=1, timeout=3000, name="all")
    alltests, seen = [], set()
    for line in ra.out.splitlines():
        for tag, op in (("VF_DD", "dedupe-any"), ("VF_CAC", "cac-any")):
            if line.startswith('<<"%s"' % tag):
                tj = tlaval.parse(line.strip())[1]
                if (op, tj) not in seen:
                    seen.add((op, tj))
                    alltests.append('[{"op":"build","tree":%s},{"op":"%s"}]' % (tj, op))
    if not alltests:
        raise vf.Inconclusive("no trees enumerated by TLC")
    ctx.log("%d tests on all consistent trees of the small scope (%d lists enumerated)" % (len(alltests), ra.distinct))
    nall = 0
    for c0 in range(0, len(alltests), 20000):
        a, b, i2, m2 = replay_and_validate(ctx, alltests[c0:c0 + 20000], "all%d" % (c0 // 20000))
        nall += a
    # 2b/3. behaviours -> real code -> TLC
    num, depth = (6000, 400) if quick else (60000, 600)
    hs = histories(ctx, num, depth, "C11_sim.cfg" if quick else "C11_sim_big.cfg", "sim")
    ctx.log("%d distinct operation histories from TLC simulation" % len(hs))
    # in chunks: one trace per 3 000 histories keeps every TLC run (and the driver's trace) small
    nev = nkept = 0
    impl, mon = {"drift": []}, {"viols": []}
    for c0 in range(0, len(hs), 3000):
        a, b, i2, m2 = replay_and_validate(ctx, hs[c0:c0 + 3000], "sim%d" % (c0 // 3000))
        nev, nkept = nev + a, nkept + b
        impl["drift"] += i2["drift"]
        mon["viols"] += m2["viols"]
    ctx.log("replayed: %d events, %d judged; drift=%d, monitor violations=%d" % (nev, nkept, len(impl["drift"]), len(mon["viols"])))
    if model_cex and not ctx.violations and not ctx.known_hits:
        raise vf.Inconclusive("ItemTreeSpec violates %s in TLC but no real execution reproduced it" % model_cex)
    nontriv = sum(1 for h in hs if h.count('"add"') >= 2)
    ctx.cov.update({
        "states": r.distinct, "transitions": r.generated, "exhaustive": True,
        "model_constants": open(os.path.join(vf.SPECS, "cfg", cfg)).read(),
        "traces_validated_against_impl": len(hs) + len(tests) + len(alltests),
        "transition_tests": len(tests), "all_small_trees_tests": len(alltests),
        "events_validated": nev + nev0 + nall,
        "evaluations": len(hs) + len(tests) + len(alltests), "distinct_nontrivial": nontriv + len(alltests),
        "rule": "evaluations = distinct TLC simulation behaviours of ItemTreeSpec + DedupeItems / CompleteAndCheck tests on the reachable trees of the exhaustive model + the same on every consistent tree of up to 4 nodes, each replayed on models.Item (plus stage-shaped walks and concurrent rounds driven by the real tree); non-trivial = behaviours with at least two AddChild operations + the distinct small trees",
        "samples": [json.loads(h) for h in sorted(hs, key=len)[-2:]],
        "impl_spec_accepted": not impl["drift"] and not impl0["drift"],
        "monitor_events": nkept,
    })
    ctx.assumptions += [
        "operation sequences are pipeline-shaped (ItemTreeSpec); arbitrary status assignments are out of scope",
        "a child carrying the seed's own URL is not a dedupe candidate (the seed is never removed)",
    ]
