"""C09 - URL canonicalisation is deterministic, idempotent, yields only http(s) URLs.

1. TLC, exhaustive: UrlAlgebraMC - the token-level reference algebra (RFC 3986 5.2 / WHATWG) is total,
   dot-free, idempotent, keeps query order and multiplicity, normalises default ports (112 320 cases).
2. The real NormalizeURL + URL.String() run on inputs built from tokens (structure known by construction:
   absolute, scheme-relative, path-absolute, path-relative with dot segments, query-only, empty/fragment-only;
   quotes, fragments, ports, repeated and valueless query keys), on hand-written hostile strings and on
   seeded mutations, four times each on fresh objects, and once more on their own output.
3. TLC (C09_Mon) checks determinism (also across events), idempotence and shape for every input and
   recomputes Resolve(base, ref) for the structured ones.
"""
import os

import vf

LEVEL = "model_checking"


def run(ctx):
    quick = ctx.tier == "quick"
    r = ctx.tlc("UrlAlgebraMC", "C09_alg.cfg", workers=8, name="alg")
    ctx.log("algebra: %d states ok=%s" % (r.distinct, r.ok))
    if not r.ok:
        print(r.out[-3000:])
        raise vf.Inconclusive("UrlAlgebra violates %s (specification error)" % r.violated)
    ctx.build_harness()
    tpath = os.path.join(ctx.scratch, "c09.ndjson")
    if ctx.replay:
        tpath = ctx.replay
    else:
        ns, nm = (1500, 1500) if quick else (20000, 20000)
        ctx.run_bin("unit-verif", ["c09", tpath, str(ns), str(nm)], timeout=1800)
    events = vf.read_ndjson(tpath)
    mon = ctx.validate("C09_Mon", "C09_mon.cfg", tpath, name="mon", timeout=3000, heap="8g")
    if mon["hwm"] < mon["total"]:
        raise vf.Inconclusive("C09_Mon stopped at line %d of %d" % (mon["hwm"], mon["total"]))
    for v in mon["viols"]:
        e = events[v["l"] - 1]
        rp = os.path.join(ctx.scratch, "viol-%d.ndjson" % v["l"])
        vf.write_ndjson(rp, [e])
        ctx.report("%s input=%r parent=%r outs=%r" % (v["why"], e["input"], e["parent"], e.get("outs")), replay_src=rp, tag="in", key=v["why"])
    cls = {}
    for e in events:
        cls[e["cls"]] = cls.get(e["cls"], 0) + 1
    ctx.cov.update({
        "states": r.distinct, "transitions": r.generated, "exhaustive": True,
        "traces_validated_against_impl": 1,
        "evaluations": len(events) * 5, "distinct_nontrivial": len({(e["input"], e["parent"]) for e in events}),
        "rule": "evaluations = NormalizeURL calls; distinct = distinct (input, parent) pairs; classes %s; accepted %d" % (cls, sum(1 for e in events if not e["rejected"])),
        "samples": [{k: e[k] for k in ("cls", "input", "parent", "out")} for e in (events[0], events[len(events) // 2], events[-1])],
    })
    ctx.assumptions += [
        "resolution and query order are checked on token-generated inputs only (alphabet without / ? & = # : @, lower-case hosts); percent-encoding normalisation and IDNA mapping get determinism, idempotence and shape only",
        "shape facts are measured on the output text by plain string operations in the harness",
    ]
