"""C01 - each accepted seed is finished exactly once, only after its whole tree is done.

1. TLC, exhaustive with fairness: Zeno.tla - queue, reactor (tokens, table, input buffer, run goroutine), the four
   stages with W workers and bounded channels, finisher decision (feedback | finish), the site deciding after each
   pass whether the tree is complete: SingleOwner, ExactlyOnce, FinishOnlyWhenDone, TableEqTokens, FeedbackRoom,
   Idle and the liveness AllFinish (never dropped).  Tree-level completion is ItemTreeSpec's part (C11).
2. The real pipeline (reactor, preprocessor, archiver with WARC writer, postprocessor, finisher, local queue)
   crawls randomly shaped sites from the scripted origin: shared / duplicate / invalid / excluded assets, redirect
   chains and loops, 4xx/5xx, retry-then-ok, retry-then-fail, dropped connections, playlists with segments,
   unparsable queue entries - for several worker counts and asset concurrencies, with seeded yields at every hook.
3. TLC validates each run against C01_Mon (the statement) and TraceC01 (Zeno.tla with the unlogged steps
   interleaved by TLC).
"""
import os
import subprocess

import vf

LEVEL = "model_checking"


def pipeline(ctx, tag, scen, args, timeout=400):
    d = os.path.join(ctx.scratch, "run-" + tag)
    t = os.path.join(ctx.scratch, "trace-%s.ndjson" % tag)
    p = subprocess.Popen([os.path.join(ctx.bindir, "zeno-verif"), scen, d, t] + [str(a) for a in args],
                         stdout=subprocess.PIPE, stderr=subprocess.PIPE, text=True,
                         env=dict(os.environ, VERIF_SEED=str(ctx.seed)))
    return p, t, d


def run(ctx):
    quick = ctx.tier == "quick"
    r = ctx.tlc("Zeno", "C01_exh.cfg" if quick else "C01_exh_t.cfg", timeout=3000, name="exh")
    ctx.log("exhaustive: %d generated, %d distinct, %.1fs ok=%s" % (r.generated, r.distinct, r.wall, r.ok))
    if not r.ok:
        print(r.out[-3000:])
        raise vf.Inconclusive("Zeno model violates %s (specification error)" % r.violated)
    ctx.build_harness(("zeno-verif",))
    if ctx.replay:
        traces = [("replay", ctx.replay, 2)]
    else:
        combos = [(25, 1, 1), (40, 2, 2), (40, 3, 1)] if quick else [(60, 1, 1), (120, 2, 2), (120, 3, 1), (120, 2, 4), (150, 4, 2), (100, 1, 3)]
        procs = []
        for (n, w, ma) in combos:
            procs.append((pipeline(ctx, "w%da%d" % (w, ma), "c01", [n, w, ma]), w))
        # the same with a source that takes its finish notifications slowly (back-pressure on the finisher)
        for (n, w, ma, slow) in ([(30, 2, 2, 40)] if quick else [(60, 2, 2, 40), (80, 3, 1, 25)]):
            procs.append((pipeline(ctx, "w%da%ds%d" % (w, ma, slow), "c01", [n, w, ma, slow]), w))
        traces = []
        for (p, t, d), w in procs:
            try:
                out, err = p.communicate(timeout=600)
            except subprocess.TimeoutExpired:
                p.kill()
                raise vf.Inconclusive("pipeline run timed out")
            if p.returncode != 0:
                # the pipeline process died: the trace up to that point is still judged (a crash may be the symptom)
                print(err[-3000:])
                ctx.log("pipeline process exited %d" % p.returncode)
                if not os.path.exists(t):
                    raise vf.Inconclusive("pipeline run produced no trace")
            traces.append((os.path.basename(t), t, w))
            subprocess.run(["rm", "-rf", d])
    nev = 0
    nseeds = 0
    impl_ok = True
    kinds = {}
    for name, t, w in traces:
        events = vf.read_ndjson(t)
        nev += len(events)
        ended = any(e["ev"] == "run.end" for e in events)
        if not ended:
            ctx.report("pipeline process died before the run ended (last event %s)" % ({k: events[-1][k] for k in events[-1] if k != "tree"}),
                       replay_src=t, tag="crash", key="pipeline crashed")
        for e in events:
            if e["ev"] == "site":
                kinds[e["kind"]] = kinds.get(e["kind"], 0) + 1
                nseeds += 1
        mon = ctx.validate("C01_Mon", "C01_mon.cfg", t, name="mon-" + name, timeout=1200, heap="8g")
        if mon["hwm"] < mon["total"]:
            raise vf.Inconclusive("C01_Mon stopped at line %d of %d" % (mon["hwm"], mon["total"]))
        for v in mon["viols"]:
            e = events[v["l"] - 1]
            ctx.report("%s %s" % (v["why"], {k: e[k] for k in e if k not in ("seq", "us")}), replay_src=t, tag="run", key=v["why"])
        # ImplSpec
        ids = sorted({e["id"] for e in events if e["ev"] == "queued"})
        cfg = os.path.join(ctx.scratch, "tr-%s.cfg" % name)
        with open(cfg, "w") as f:
            f.write("SPECIFICATION TSpec\nCONSTANTS\n  Seeds = {%s}\n  W = %d\n  MaxPasses = 20\nCONSTRAINT Marked\nPOSTCONDITION Post\nCHECK_DEADLOCK FALSE\n"
                    % (", ".join('"%s"' % i for i in ids), w))
        try:
            impl = ctx.validate("TraceC01", cfg, t, name="impl-" + name, dfs=True, timeout=900, heap="8g")
            if impl["hwm"] < impl["total"]:
                impl_ok = False
                e = events[impl["hwm"]]
                ctx.note_drift("%s: %s" % (name, {k: e[k] for k in e if k not in ("tree", "seq", "us")}))
        except vf.Inconclusive as ex:
            impl_ok = False
            ctx.note_drift("%s: ImplSpec validation inconclusive: %s" % (name, str(ex)[:200]))
    ctx.cov.update({
        "states": r.distinct, "transitions": r.generated, "exhaustive": True,
        "traces_validated_against_impl": len(traces),
        "evaluations": nev, "distinct_nontrivial": nseeds,
        "rule": "evaluations = trace events of real pipeline runs; distinct_nontrivial = seeds crawled; seed kinds %s (each page with 0-5 assets of 13 kinds)" % kinds,
        "impl_spec_accepted": impl_ok,
        "samples": [t[0] for t in traces],
    })
    ctx.assumptions += [
        "worker counts 1-4, trees up to about ten nodes; interleavings of the real pipeline are sampled with seeded yields",
        "a node counted as fetched is checked against the origin's request log at the end of the archiving stage",
    ]
