"""C03 - graceful stop always terminates and finalises the WARC output.

1. TLC, exhaustive with fairness: Stop.tla - stopPipeline's steps, W workers per stage at their blocking points
   (select / blocked waiting for resume / busy / sending), bounded channels, pause by a controller, with a stop
   request arriving in every reachable state, for the --proxy and --disable-seencheck configurations: NoCrash,
   WorkersGone and the liveness StopReturns.  Each repair (worker watches its context while paused, nil guard in
   archiver.Stop, seencheck guard) is necessary in the model; so is the context case of the postprocessor's outlink
   feeding loop (negative configuration C03_model_nofeedguard, rejected on StopReturns).
2. The real pipeline, one process per (configuration, stop moment): workers 1-3, WARC pool 1-2, sync / async
   writing, rate limiter on / off, seencheck on / off, direct / SOCKS5 proxy; stop while idle, after the k-th
   occurrence of a progress event (queue claim, each stage's take, a response arriving, a finish), in the middle
   of a fetch the origin holds back, while paused by the operator, while paused by the disk watchdog, and after the
   queue drained.  controler.Stop() runs under a watchdog derived from the configuration; afterwards the WARC
   directory is listed and parsed record by record.
3. TLC (C03_Mon) judges each run; a process that dies is a violation by itself.
4. TLC (TraceC03) binds Stop.tla to the same runs: the recorded steps of stopPipeline come in the model's order, a
   stage's Stop returns only when the model's AllExited(stage) holds for the workers that were started, no worker
   leaves before the stop request, and the pause / wake events fit the model's worker states (SPEC-DRIFT otherwise).
"""
import os
import subprocess

import vf
from c01 import pipeline

LEVEL = "model_checking"

MOMENTS_Q = ["idle", "drained", "paused", "midfetch", "midfetch-discard", "midfetch-cut", "hook:lq.claim:1", "hook:pre.take:2", "hook:arch.take:2",
             "hook:arch.item.response:3", "hook:post.take:2", "hook:fin.finish:1",
             "hold:pre.take:2", "hold:arch.take:2", "hold:post.take:2", "hold:fin.finish:1",
             "paused-midfeed"]     # (new moments go to the end: the rotation below is by position)
# workers pool async ratelimit seencheck proxy
CONFIGS_Q = [(2, 1, 0, 0, 1, 0), (3, 2, 1, 1, 1, 0), (1, 1, 0, 0, 0, 0), (2, 1, 0, 0, 1, 1)]


def run(ctx):
    quick = ctx.tier == "quick"
    r = ctx.tlc("Stop", "C03_model.cfg" if quick else "C03_model_t.cfg", timeout=3000, name="model")
    ctx.log("Stop model: %d distinct states, %.1fs ok=%s" % (r.distinct, r.wall, r.ok))
    if not r.ok:
        print(r.out[-3000:])
        raise vf.Inconclusive("Stop model violates %s (specification error)" % r.violated)
    # negative configuration: the postprocessor's outlink feeding loop without the context case (a bare channel send)
    # must make the model lose StopReturns - stop while paused with a worker feeding into a channel nobody drains
    rn = ctx.tlc("Stop", "C03_model_nofeedguard.cfg", timeout=1500, name="model-nofeedguard")
    ctx.log("Stop model without the feeding loop's context case: rejected=%s" % (not rn.ok))
    if rn.ok or "Temporal property StopReturns was violated" not in rn.out:
        print(rn.out[-2000:])
        raise vf.Inconclusive("Stop model accepts an unguarded outlink feeding loop (specification error)")
    ctx.build_harness(("zeno-verif",))
    if ctx.replay:
        jobs = []
        traces = [("replay", ctx.replay)]
    else:
        jobs = []
        if quick:
            # every moment under the first configuration, a rotating subset under the others, plus the disk watchdog pause
            for m in MOMENTS_Q:
                jobs.append((CONFIGS_Q[0], m))
            for i, c in enumerate(CONFIGS_Q[1:]):
                for j, m in enumerate(MOMENTS_Q):
                    if (i + j + ctx.seed) % 3 == 0:
                        jobs.append((c, m))
            jobs.append((CONFIGS_Q[0], "diskpaused"))
        else:
            cfgs = [(w, p, a, rl, s, px) for w in (1, 3) for p in (1, 2) for a in (0, 1) for rl in (0, 1) for s in (0, 1) for px in (0, 1)]
            moments = MOMENTS_Q + ["diskpaused", "hook:arch.take:5", "hook:arch.item.response:9", "hook:post.take:6", "hook:fin.finish:4", "hook:lq.delete:1"]
            for i, c in enumerate(cfgs):
                for j, m in enumerate(moments):
                    if (i * 7 + j + ctx.seed) % 4 == 0 or i < 2:
                        jobs.append((c, m))
        traces = []
        maxpar = 12
        pending = list(enumerate(jobs))
        running = []
        while pending or running:
            while pending and len(running) < maxpar:
                k, (c, m) = pending.pop(0)
                p, t, d = pipeline(ctx, "j%d" % k, "c03", list(c) + [m])
                running.append((p, t, d, c, m))
            p, t, d, c, m = running.pop(0)
            try:
                out, err = p.communicate(timeout=300)
            except subprocess.TimeoutExpired:
                p.kill()
                out, err = p.communicate()
            subprocess.run(["rm", "-rf", d])
            traces.append(("cfg=%s moment=%s" % (c, m), t, p.returncode, err))
    viol_runs = 0
    nevents = 0
    for item in traces:
        name, t = item[0], item[1]
        if not os.path.exists(t):
            raise vf.Inconclusive("run %s produced no trace" % name)
        events = vf.read_ndjson(t)
        nevents += len(events)
        if not any(e["ev"] == "run.end" for e in events):
            tail = (item[3] or "")[-600:] if len(item) > 3 else ""
            ctx.report("the crawler process died (%s): %s" % (name, " ".join(tail.split())[:400]), replay_src=t, tag="crash",
                       key="process died " + name.split(" moment=")[0])
            continue
        impl = ctx.validate("TraceC03", "C03_trace.cfg", t, name="impl-%d" % traces.index(item))
        if impl["hwm"] < impl["total"]:
            ctx.note_drift("%s: event %d is not explained by Stop.tla" % (name, impl["hwm"] + 1), t)
        for dft in impl["drift"][:3]:
            ctx.note_drift("%s: %s (event %d)" % (name, dft["why"], dft["l"]), t)
        mon = ctx.validate("C03_Mon", "C03_mon.cfg", t, name="mon-%d" % traces.index(item))
        for v in mon["viols"]:
            ctx.report("%s (%s)" % (v["why"], name), replay_src=t, tag="run", key=v["why"])
    ctx.cov.update({
        "states": r.distinct, "transitions": r.generated, "exhaustive": True,
        "traces_validated_against_impl": len(traces),
        "evaluations": nevents, "distinct_nontrivial": len({t[0] for t in traces}),
        "rule": "evaluations = recorded events judged; distinct_nontrivial = distinct (configuration, stop moment) cases, one pipeline process each; configuration = (workers, WARC pool, async, rate limiter, seencheck, proxy)",
        "samples": [t[0] for t in traces[:6]],
    })
    ctx.assumptions += [
        "'bounded time' = HTTP timeout x (max-retry + 1) + retry sleeps + 25 s for writer drain, not a tight bound",
        "stop moments are enumerated by progress events (k-th occurrence), not by every machine instruction; the exhaustive enumeration of moments is on the model",
    ]
