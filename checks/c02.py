"""C02 - accepted responses are in the WARC, byte-exact, before the seed is finished.

1. TLC, exhaustive with fairness: WarcWrite.tla - fetch, wire capture, library-side discard decision, batch queue,
   P writers, feedback signal, archiver wait, finish: StoredBeforeFinish, RejectedNeverStored, EventuallyFinished
   (the variant without the wait violates StoredBeforeFinish).
2. The real pipeline crawls response bodies of every class: sizes 0, 1, 2047/2048/2049, 70 KB, 2 MiB -1/0/+1,
   3 MB; text / html / binary; identity / gzip; content-length / chunked; 200, 404, plain 403, 500-then-200,
   Cloudflare challenge-then-200, 429-then-200 and 418 (both in --warc-discard-status), redirects, identical
   payloads above the dedupe threshold, pages with several assets in flight - for WARC pool sizes 1 and 2,
   on-disk mode and local dedupe on/off.  Inside the finisher (before the finish message is sent) the WARC
   directory is read by an independent reader: gzip member by member, WARC headers, HTTP de-chunking and
   content-decoding, SHA-1.  One asset per page is held inside the library's discard call for 700 ms.
3. TLC (C02_Mon) compares what the origin sent with what is on disk at every finish, and checks that nothing
   rejected is ever written and that no seed finishes while one of its writes is held.
"""
import os
import subprocess

import vf
from c01 import pipeline

LEVEL = "model_checking"


def run(ctx):
    quick = ctx.tier == "quick"
    r = ctx.tlc("WarcWrite", "C02_model.cfg", workers=4, name="model")
    ctx.log("WarcWrite model: %d states ok=%s" % (r.distinct, r.ok))
    if not r.ok:
        print(r.out[-3000:])
        raise vf.Inconclusive("WarcWrite model violates %s (specification error)" % r.violated)

    neg = ctx.tlc("WarcWrite", "C02_model_noretrywait.cfg", workers=2, name="model-noretrywait")
    if neg.ok or "StoredBeforeFinish" not in (neg.violated or ""):
        raise vf.Inconclusive("WarcWrite without the wait on retried attempts does not violate StoredBeforeFinish: the model does not discriminate")
    neg2 = ctx.tlc("WarcWrite", "C02_model_sharedfb.cfg", workers=2, name="model-sharedfb")
    if neg2.ok or "StoredBeforeFinish" not in (neg2.violated or ""):
        raise vf.Inconclusive("WarcWrite with concurrent fetches waiting for the last started request's signal does not violate StoredBeforeFinish: the model does not discriminate")
    ctx.build_harness(("zeno-verif",))
    if ctx.replay:
        traces = [("replay", ctx.replay)]
    else:
        # pool, ondisk, dedupe, n, big
        combos = [(1, 0, 1, 50, 1), (2, 1, 0, 50, 0), (2, 0, 1, 50, 0)] if quick else \
                 [(1, 0, 1, 300, 1), (2, 1, 0, 300, 1), (2, 0, 1, 300, 1), (1, 1, 1, 200, 1), (3, 0, 0, 300, 1)]
        procs = [pipeline(ctx, "p%dd%dl%d" % c[:3], "c02", list(c)) for c in combos]
        # a graceful stop while the write of one seed's response is being held: if that seed is still reported finished,
        # its records must be there (whether the worker hands it on is up to the scheduler: several cases)
        for i in range(4 if quick else 10):
            procs.append(pipeline(ctx, "stophold%d" % i, "c02", [1 + i % 2, 0, 1, 8, 0, "stophold"]))
        traces = []
        for p, t, d in procs:
            try:
                out, err = p.communicate(timeout=2400)
            except subprocess.TimeoutExpired:
                p.kill()
                raise vf.Inconclusive("pipeline run timed out")
            if p.returncode != 0:
                print(err[-2000:])
                ctx.log("pipeline process exited %d" % p.returncode)
            subprocess.run(["rm", "-rf", d])
            traces.append((os.path.basename(t), t))
    nresp = nrec = 0
    classes = set()
    for name, t in traces:
        events = vf.read_ndjson(t)
        if not any(e["ev"] == "run.end" for e in events):
            ctx.report("pipeline process died before the run ended", replay_src=t, tag="crash", key="pipeline crashed")
        for e in events:
            if e["ev"] == "resp":
                nresp += 1
                sz = e["len"]
                cls = "0" if sz == 0 else "<2K" if sz < 2048 else "=2K" if sz == 2048 else "<2M" if sz < 2097152 else "=2M" if sz == 2097152 else ">2M"
                classes.add((e["status"], cls, e.get("ctype"), e["gzip"], e["chunked"]))
            if e["ev"] == "disk":
                nrec += len(e["records"])
        for mod, cfg in (("C02_Mon", "C02_mon.cfg"), ("C01_Mon", "C01_mon.cfg")):
            mon = ctx.validate(mod, cfg, t, name="%s-%s" % (mod, name), timeout=2400, heap="8g")
            if mon["hwm"] < mon["total"]:
                raise vf.Inconclusive("%s stopped at line %d of %d" % (mod, mon["hwm"], mon["total"]))
            for v in mon["viols"]:
                e = events[v["l"] - 1]
                if v["why"].startswith("HARNESS"):
                    raise vf.Inconclusive("origin log incomplete at line %d" % v["l"])
                ctx.report("%s [%s] %s" % (v["why"], name, {k: e[k] for k in e if k in ("ev", "id", "why")}), replay_src=t, tag="run", key=v["why"])
    ctx.cov.update({
        "states": r.distinct, "transitions": r.generated, "exhaustive": True,
        "traces_validated_against_impl": len(traces),
        "evaluations": nresp, "distinct_nontrivial": len(classes),
        "rule": "evaluations = responses served by the origin and compared with the WARC; distinct = (status, size class, content type, gzip, chunked) classes; WARC records parsed independently: %d" % nrec,
        "samples": sorted(classes, key=str)[:8],
    })
    ctx.assumptions += [
        "payload identity is checked on the entity body after de-chunking and content-decoding (the origin logs SHA-1 and length of the body before content-encoding)",
        "CDX dedupe is out of scope; 'finished' is observed inside the finisher, immediately before the finish message is sent",
    ]
