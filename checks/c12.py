"""C12 - reactor: bounded in-flight seeds, exact token accounting, no deadlock.

1. TLC, exhaustive: Reactor/ReactorSpec (one action per channel / sync.Map step, select = any ready case)
   with 2 (thorough: 3) concurrent callers issuing any mix of insert / feedback / finish / freeze / stop and
   the two misuse cases (unknown feedback, repeated finish): NoCrash, TokenAccounting, Bound,
   FeedbackNeverBlocks, FinishNeverBlocks, AfterFreeze, NoSideEffects; Delivery (liveness) under fairness.
2. The real reactor runs under concurrent producers / workers / controller with seeded schedule
   perturbation at its internal hook points; call/ret, out and quiescent snapshot events are recorded.
3. TLC validates each history against C12_Mon (linearisability w.r.t. the atomic reactor of the statement)
   and against TraceC12 (Reactor.tla with TLC interleaving the unlogged internal steps).
"""
import os

import vf

LEVEL = "model_checking"


def check_history(ctx, tpath, events, mx, tag):
    """monitor (verdict) + ImplSpec (drift); on a rejection the offending scenario is cut out and the rest re-checked"""
    cur = events
    nviol = 0
    for attempt in range(4):
        p = os.path.join(ctx.scratch, "mon-%s-%d.ndjson" % (tag, attempt))
        vf.write_ndjson(p, cur)
        mon = ctx.validate("C12_Mon", "C12_mon.cfg", p, name="mon-%s-%d" % (tag, attempt), dfs=True, timeout=600)
        if mon["hwm"] >= mon["total"]:
            break
        e = cur[mon["hwm"]]
        sc = e.get("sc")
        scn = [x for x in cur if x.get("sc") == sc]
        rp = os.path.join(ctx.scratch, "viol-%s-sc%s.ndjson" % (tag, sc))
        vf.write_ndjson(rp, scn)
        what = "history not linearisable at %s" % ({k: e[k] for k in e if k not in ("seq",)})
        key = "ev=%s op=%s res=%s" % (e.get("ev"), e.get("op"), e.get("res"))
        ctx.report(what, replay_src=rp, tag="sc", key=key)
        nviol += 1
        cur = [x for x in cur if x.get("sc") != sc]
    # ImplSpec
    p = os.path.join(ctx.scratch, "impl-%s.ndjson" % tag)
    vf.write_ndjson(p, cur)
    try:
        impl = ctx.validate("TraceC12", "C12_trace_%d.cfg" % mx, p, name="impl-%s" % tag, dfs=True, timeout=600)
        if impl["hwm"] < impl["total"]:
            e = cur[impl["hwm"]]
            ctx.note_drift("max=%d %s" % (mx, {k: e[k] for k in e if k != "seq"}))
        return impl["hwm"] >= impl["total"]
    except vf.Inconclusive as ex:
        ctx.note_drift("max=%d ImplSpec validation inconclusive: %s" % (mx, str(ex)[:200]))
        return False


def run(ctx):
    quick = ctx.tier == "quick"
    states = trans = 0
    cfgs = ["C12_exh_q.cfg", "C12_live.cfg"] if quick else ["C12_exh_t.cfg", "C12_exh_q.cfg", "C12_live.cfg"]
    for cfg in cfgs:
        r = ctx.tlc("ReactorSpec", cfg, timeout=3000, name="exh-" + cfg[:-4])
        ctx.log("exhaustive %s: %d generated, %d distinct, %.1fs ok=%s" % (cfg, r.generated, r.distinct, r.wall, r.ok))
        if not r.ok:
            print(r.out[-3000:])
            raise vf.Inconclusive("ReactorSpec violates %s under %s (specification error)" % (r.violated, cfg))
        states += r.distinct
        trans += r.generated
    neg = ctx.tlc("ReactorSpec", "C12_exh_smallinput.cfg", timeout=3000, name="neg-smallinput")
    if neg.ok or "FeedbackNeverBlocks" not in (neg.violated or ""):
        raise vf.Inconclusive("Reactor with an input channel smaller than the token count does not violate FeedbackNeverBlocks: the model does not discriminate")
    ctx.build_harness()
    nsc = 40 if quick else 400
    total_events = 0
    calls = 0
    impl_ok = True
    samples = []
    if ctx.replay:
        events = vf.read_ndjson(ctx.replay)
        if events and events[0]["ev"] == "bulk":   # a bulk scenario is replayed by running it again at that size
            bpath = os.path.join(ctx.scratch, "c12-bulk.ndjson")
            ctx.run_bin("unit-verif", ["c12bulk", bpath, str(events[0]["max"])], timeout=600)
            bmon = ctx.validate("C12B_Mon", "C12B_mon.cfg", bpath, name="bulk")
            for v in bmon["viols"]:
                ctx.report(v["why"], replay_src=bpath, tag="bulk", key=v["why"])
            ctx.cov.update({"states": states, "transitions": trans, "traces_validated_against_impl": 1, "samples": vf.read_ndjson(bpath)[:1]})
            return
        mx = [e for e in events if e["ev"] == "start"][0]["max"]
        check_history(ctx, ctx.replay, events, mx, "replay")
        ctx.cov.update({"states": states, "transitions": trans, "traces_validated_against_impl": 1, "samples": events[:3]})
        return
    for mx in (1, 2, 3):
        tpath = os.path.join(ctx.scratch, "c12-%d.ndjson" % mx)
        ctx.run_bin("unit-verif", ["c12", tpath, str(nsc), str(mx)], timeout=1200)
        events = vf.read_ndjson(tpath)
        total_events += len(events)
        calls += sum(1 for e in events if e["ev"] == "call")
        samples.append([{k: e[k] for k in e if k != "seq"} for e in events[1:6]])
        impl_ok = check_history(ctx, tpath, events, mx, "m%d" % mx) and impl_ok
        ctx.log("max=%d: %d events validated" % (mx, len(events)))
    # the token rule at configured sizes (sequential bulk scenarios), judged by C12B_Mon
    bpath = os.path.join(ctx.scratch, "c12-bulk.ndjson")
    sizes = ["1", "2", "64", "1000", "8192", "8193", "20000"] if quick else ["1", "2", "3", "64", "255", "256", "1000", "4096", "8192", "8193", "20000", "65536", "70000"]
    ctx.run_bin("unit-verif", ["c12bulk", bpath] + sizes, timeout=1200)
    bev = vf.read_ndjson(bpath)
    if len(bev) == 0:
        raise vf.Inconclusive("the bulk driver recorded nothing")
    bmon = ctx.validate("C12B_Mon", "C12B_mon.cfg", bpath, name="bulk")
    if bmon["hwm"] < bmon["total"]:
        raise vf.Inconclusive("C12B_Mon stopped at line %d of %d" % (bmon["hwm"], bmon["total"]))
    for v in bmon["viols"]:
        e = bev[v["l"] - 1]
        rp = os.path.join(ctx.scratch, "viol-bulk-%d.ndjson" % e["max"])
        vf.write_ndjson(rp, [e])
        ctx.report("%s (tokens=%d: %s)" % (v["why"], e["max"], {k: e[k] for k in e if k not in ("seq", "ev")}), replay_src=rp, tag="bulk", key=v["why"])
    total_events += len(bev)
    ctx.log("bulk scenarios: %d sizes, %d violations" % (len(bev), len(bmon["viols"])))
    ctx.cov.update({
        "states": states, "transitions": trans, "exhaustive": True,
        "traces_validated_against_impl": 3 * nsc,
        "evaluations": total_events, "distinct_nontrivial": calls,
        "rule": "events of concurrent histories of the real reactor (3 token counts x %d scenarios); non-trivial = API calls" % nsc,
        "impl_spec_accepted": impl_ok,
        "samples": samples,
    })
    ctx.assumptions += [
        "callers follow the pipeline's protocol: unique ids, feedback/finish only by the holder of a delivered seed, no insert/feedback concurrent with Stop",
        "interleavings of the real code are sampled (seeded yields at the hook points), not enumerated; the enumeration is on the model",
    ]
