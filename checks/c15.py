"""C15 - outlinks and finish acknowledgements reach the queue intact, despite queue errors.

1. TLC, exhaustive with fairness: HQ.tla - receiver -> batch (size- or timer-flushed) -> bounded channel ->
   dispatcher -> sender with retry, against an environment that breaks any of a bounded number of attempts
   before or after the server applied them: Conserved (every item is in exactly one place or at the server) and
   AllDelivered.  A sender that gives up on an error (RetryOnError = FALSE) violates Conserved - checked too, so
   the model is known to discriminate.
2. The real pipeline crawls a small site (hubs at several hop counts and 'via' values, shared and oddly spelt
   links, two more levels) against (a) the local queue and (b) a fake crawl HQ speaking the REST protocol of
   gocrawlhq, which fails add / delete / get calls by a seeded script: 500, 503, connection reset, time-outs with
   and without applying the request.  Batch sizes vary so that batches fill by size and by the 5 s ticker.
3. TLC (C15_Mon) checks the event log: every discovered outlink reaches the queue with the same text, via and
   hops (HQ: path is hops x 'L'); what the queue hands out comes back as a seed with that text, via and hops;
   every finished seed is acknowledged by id, and only after it finished; no value waits twice in the local queue.
4. TLC (TraceC15) validates the add and the delete path of every HQ run against HQ.tla itself: each attempt the
   fake HQ saw must carry a batch the model can have in its sender (items produced before, each once, at most
   batch-size, the same batch again after a failure); receiver / flush / dispatch steps are inferred.  A
   rejection is reported as SPEC-DRIFT.
"""
import os
import subprocess

import vf
from c01 import pipeline

LEVEL = "model_checking"


def run(ctx):
    quick = ctx.tier == "quick"
    r = ctx.tlc("HQ", "C15_model.cfg" if quick else "C15_model_t.cfg", workers=8, timeout=1500, name="model")
    ctx.log("HQ model: %d distinct states ok=%s" % (r.distinct, r.ok))
    if not r.ok:
        print(r.out[-3000:])
        raise vf.Inconclusive("HQ model violates %s (specification error)" % r.violated)
    r2 = ctx.tlc("HQ", "C15_model_noretry.cfg", workers=4, timeout=600, name="model-noretry")
    if r2.ok or "Conserved" not in (r2.violated or ""):
        raise vf.Inconclusive("HQ model without retry does not violate Conserved: the model does not discriminate")
    ctx.build_harness(("zeno-verif",))
    if ctx.replay:
        traces = [("replay", ctx.replay)]
    else:
        s = ctx.seed
        # (mode, hubs, batch, faults, timeouts)
        cases = [("lq", 5, 0, 0, 0), ("hq", 4, 2, 2, 0), ("hq", 5, 3, 3, 1), ("hq", 2, 3, 1, 0, 10, 300), ("hq", 2, 60, 1, 0, 10, 300)] if quick else \
                [("lq", 5, 0, 0, 0), ("lq", 9, 0, 0, 0), ("hq", 4, 2, 2, 0), ("hq", 5, 3, 3, 1), ("hq", 6, 1, 4, 1),
                 ("hq", 7, 4, 6, 2), ("hq", 3, 5, 1, 0), ("hq", 8, 2, 8, 2), ("hq", 6, 3, 0, 3), ("hq", 2, 3, 1, 0, 10, 300), ("hq", 5, 2, 2, 0, 12, 400)]
        procs = [(c, pipeline(ctx, "-".join(str(x) for x in c), "c15", list(c))) for c in cases]
        traces = []
        for c, (p, t, d) in procs:
            try:
                out, err = p.communicate(timeout=900)
            except subprocess.TimeoutExpired:
                p.kill()
                raise vf.Inconclusive("pipeline run timed out")
            subprocess.run(["rm", "-rf", d])
            if p.returncode != 0:
                print(err[-2000:])
                ctx.log("pipeline process exited %d" % p.returncode)
            traces.append(("-".join(str(x) for x in c), t))
    nout = nfault = nfin = nimpl = 0
    kinds = set()
    for name, t in traces:
        events = vf.read_ndjson(t)
        if not any(e["ev"] == "c15.end" for e in events):
            raise vf.Inconclusive("run %s did not reach its end (crawler died?)" % name)
        nout += sum(len(e.get("outlinks", [])) for e in events if e["ev"] == "post.done")
        nfin += sum(1 for e in events if e["ev"] == "fin.finish")
        for e in events:
            if e["ev"] in ("hq.add", "hq.delete", "hq.get") and e["fault"] != "ok":
                nfault += 1
                kinds.add(e["ev"][3:] + ":" + e["fault"])
        mon = ctx.validate("C15_Mon", "C15_mon.cfg", t, name="mon-" + name)
        if mon["hwm"] < mon["total"]:
            raise vf.Inconclusive("C15_Mon stopped at line %d of %d" % (mon["hwm"], mon["total"]))
        for v in mon["viols"]:
            why = v["why"]
            key = why.split(" u=")[0].split(" id=")[0].split(" value=")[0]
            ctx.report("%s [%s]" % (why, name), replay_src=t, tag=name, key=key)
        if any(e["ev"] == "c15.mode" and e["mode"] == "hq" for e in events):
            for path in ("add", "delete"):
                impl = ctx.validate("TraceC15", "C15_trace_%s.cfg" % path, t, name="impl-%s-%s" % (path, name))
                nimpl += 1
                if impl["hwm"] < impl["total"] or "ConservedBorn is violated" in impl["out"]:
                    ctx.note_drift("%s path of run %s: event %d (%s) is not a step of HQ.tla" % (path, name, impl["hwm"] + 1, events[min(impl["hwm"], len(events) - 1)]["ev"]), t)
    if not ctx.replay and (nout < 10 or nfin < 10 or nfault < 4):
        raise vf.Inconclusive("the runs exercised too little: %d outlinks, %d finishes, %d faults" % (nout, nfin, nfault))
    ctx.cov.update({
        "states": r.distinct, "transitions": r.generated, "exhaustive": True,
        "traces_validated_against_impl": len(traces) + nimpl,
        "evaluations": nout + nfin, "distinct_nontrivial": len(kinds),
        "rule": "evaluations = outlinks delivered + finishes acknowledged; distinct = (endpoint, fault kind) pairs injected",
        "samples": sorted(kinds)[:12],
    })
    ctx.assumptions += [
        "the fake HQ de-duplicates added URLs by value and keeps path / via as sent (the real service is not available offline)",
        "faults are injected per call from a finite script; after 20 s without any activity a delivery still missing counts as dropped",
    ]
