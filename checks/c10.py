"""C10 - no server-controlled input can crash or hang the crawler.

What the specification contributes (the claim is deliberately limited, see DESIGN.md section 8):
1. TLC, exhaustive: Mutation.tla - a document is a sequence of chunks of a valid sample; drop / duplicate /
   swap / truncate / splice-a-hostile-token; TLC enumerates EVERY document reachable within 2 (thorough: 3)
   mutations.  Each distinct document is one test input per sample type: HTML, JSON, XML, sitemap, S3 listing,
   M3U8 master and media playlists, PDF, plain text, and the Location / Link / Content-Type header values.
2. Each input goes through the real ProcessBody, the post-processing dispatch (every extractor) and
   NormalizeURL on whatever links come out, in worker processes with a deadline per input
   (x.start / x.end events; a start without its end is a crash or a hang).
3. Containment: a sample of the hostile documents is served by the origin next to healthy pages and crawled by
   the real pipeline: the process must survive and every seed must finish (C01_Mon).
Byte-level and coverage-guided fuzzing are a different technique and are not used.
"""
import json
import os
import subprocess

import tlaval
import vf
from c01 import pipeline

LEVEL = "exploration"


def run(ctx):
    quick = ctx.tier == "quick"
    cfg = "C10_mut.cfg" if quick else "C10_mut_t.cfg"
    r = ctx.tlc("Mutation", cfg, workers=1, timeout=3000, name="mut")
    docs = []
    seen = set()
    for line in r.out.splitlines():
        if line.startswith('<<"VF_DOC"'):
            d = tlaval.parse(line.strip())[1]
            if d not in seen:
                seen.add(d)
                docs.append(d)
    if not r.ok or not docs:
        print(r.out[-3000:])
        raise vf.Inconclusive("Mutation model did not enumerate documents")
    ctx.log("TLC enumerated %d distinct documents (%d states)" % (len(docs), r.distinct))
    ctx.build_harness(("unit-verif", "zeno-verif"))
    dpath = os.path.join(ctx.scratch, "docs.ndjson")
    with open(dpath, "w") as f:
        for d in docs:
            f.write(d + "\n")
    nsh = 16
    keep = os.path.join(ctx.scratch, "keep.ndjson")

    def shard(i, start):
        out = os.path.join(ctx.scratch, "x-%d-%d.ndjson" % (i, start))
        env = dict(os.environ, VERIF_SEED=str(ctx.seed), VERIF_C10_DC_EVERY="1" if ctx.tier == "quick" else "2")
        if i == 0 and start == 0:
            env["VERIF_C10_KEEP"] = keep
        p = subprocess.Popen([os.path.join(ctx.bindir, "unit-verif"), "c10", dpath, out, str(start), str(i), str(nsh)],
                             stdout=subprocess.DEVNULL, stderr=subprocess.PIPE, text=True, env=env)
        return p, out

    traces = []
    procs = [(i, 0) + shard(i, 0) for i in range(nsh)]
    guard = 0
    aborted = False
    while procs:
        i, start, p, out = procs.pop(0)
        try:
            _, err = p.communicate(timeout=6000)
        except subprocess.TimeoutExpired:
            p.kill()
            raise vf.Inconclusive("extractor worker timed out as a whole")
        traces.append(out)
        if p.returncode != 0:
            # the worker stopped at an input (deadline -> exit 4, or a crash the recover could not catch): go on after it
            ev = vf.read_ndjson(out)
            last = max([e["n"] for e in ev if "n" in e] + [start])
            guard += 1
            if guard > 60:
                # inputs keep killing or hanging the workers: stop here and judge what was recorded (every start
                # without its end is in the traces); the run is not complete, which only matters if nothing is found
                aborted = True
                for _, _, q, qout in procs:
                    q.kill()
                    q.communicate()
                    traces.append(qout)
                procs = []
                break
            if p.returncode not in (4,):
                ctx.log("worker %d died with exit %d after input %d: %s" % (i, p.returncode, last, " ".join((err or "").split())[-200:]))
            procs.append((i, last) + shard(i, last))
    total = 0
    bytype = {}
    nslow = 0
    confirmed = {}

    def confirm(doc, typ):
        """A recorded time-out (10 s, possibly on a loaded machine) is measured again: the same document alone, all
        sample types, 90 s per input.  Only an input that exceeds that as well counts as a hang."""
        key = (json.dumps(doc), typ)
        if key not in confirmed:
            cpath = os.path.join(ctx.scratch, "confirm-%d.docs" % len(confirmed))
            cout = os.path.join(ctx.scratch, "confirm-%d.ndjson" % len(confirmed))
            with open(cpath, "w") as f:
                f.write(json.dumps(doc) + "\n")
            env = dict(os.environ, VERIF_SEED=str(ctx.seed), VERIF_C10_DEADLINE="90", VERIF_C10_DC_EVERY="1")
            start = 0
            hang = None
            for attempt in range(25):     # (the driver leaves after an input that exceeds the deadline: go on after it)
                q = subprocess.run([os.path.join(ctx.bindir, "unit-verif"), "c10", cpath, cout, str(start), "0", "1"],
                                   stdout=subprocess.DEVNULL, stderr=subprocess.PIPE, text=True, env=env, timeout=2400)
                cev = vf.read_ndjson(cout) if os.path.exists(cout) else []
                ends = [e for e in cev if e["ev"] == "x.end" and e["type"] == typ]
                if ends:
                    hang = ends[0]["outcome"] == "timeout"
                    break
                if q.returncode == 0:
                    break
                start = max([e["n"] for e in cev if "n" in e] + [start])
            if hang is None:
                raise vf.Inconclusive("could not re-measure a recorded time-out (%s)" % typ)
            confirmed[key] = hang
        return confirmed[key]

    for t in traces:
        if not os.path.exists(t):     # a worker killed before it wrote anything
            continue
        events = vf.read_ndjson(t)
        if not events:
            continue
        docs_by_id = {e["id"]: e["doc"] for e in events if e["ev"] == "x.start"}
        changed = False
        for e in events:
            if e["ev"] == "x.end" and e.get("outcome") == "timeout" and e["id"] in docs_by_id:
                key = (json.dumps(docs_by_id[e["id"]]), e["type"])
                if key not in confirmed and len(confirmed) >= 6:
                    # enough re-measurements (90 s each for a real hang): further recorded time-outs are not judged
                    e["outcome"], e["unconfirmed"] = "ok", True
                    changed = True
                elif not confirm(docs_by_id[e["id"]], e["type"]):
                    e["outcome"], e["slow"] = "ok", True
                    nslow += 1
                    changed = True
        if changed:
            vf.write_ndjson(t, events)
        total += sum(1 for e in events if e["ev"] == "x.start")
        for e in events:
            if e["ev"] == "x.end":
                bytype[e["type"]] = bytype.get(e["type"], 0) + 1
        mon = ctx.validate("C10_Mon", "C10_mon.cfg", t, name="mon-" + os.path.basename(t), timeout=1200, heap="4g")
        starts = {e["id"]: e for e in events if e["ev"] == "x.start"}
        for v in mon["viols"]:
            e = events[v["l"] - 1]
            sid = e.get("id") if e["ev"] == "x.end" else None
            doc = starts.get(sid, {}).get("doc")
            rp = os.path.join(ctx.scratch, "input-%s.ndjson" % (sid or "x").replace("/", "_"))
            with open(rp, "w") as f:
                f.write(json.dumps(doc) + "\n")
            ctx.report("%s id=%s doc=%s %s" % (v["why"], sid, doc, e.get("detail", "")), replay_src=rp, tag="input",
                       key="%s" % v["why"])
    if nslow:
        ctx.log("%d input(s) exceeded 10 s in the sharded run but finished when measured again alone (slow machine, not a hang)" % nslow)
    if aborted and not ctx.violations:
        raise vf.Inconclusive("too many worker restarts and no violation recorded")
    # containment, end to end
    e2e = 0
    if os.path.exists(keep) and os.path.getsize(keep) > 0:
        p, t, d = pipeline(ctx, "contain", "c10", [keep])
        try:
            out, err = p.communicate(timeout=900)
        except subprocess.TimeoutExpired:
            p.kill()
            raise vf.Inconclusive("containment run timed out")
        subprocess.run(["rm", "-rf", d])
        events = vf.read_ndjson(t)
        e2e = sum(1 for e in events if e["ev"] == "queued")
        if not any(e["ev"] == "run.end" for e in events):
            ctx.report("the crawler process died while crawling hostile documents: %s" % " ".join((err or "").split())[-400:], replay_src=t, tag="crash", key="crawler died on hostile document")
        else:
            mon = ctx.validate("C01_Mon", "C01_mon.cfg", t, name="contain", timeout=1200, heap="8g")
            for v in mon["viols"]:
                e = events[v["l"] - 1]
                ctx.report("containment: %s %s" % (v["why"], {k: e[k] for k in e if k not in ("tree", "seq", "us")}), replay_src=t, tag="contain", key="containment: " + v["why"])
    ctx.cov.update({
        "evaluations": total, "distinct_nontrivial": len(docs),
        "rule": "evaluations = (document, sample type) inputs run through the real code; distinct_nontrivial = distinct documents enumerated by TLC within %s mutations; per type %s; containment seeds crawled end to end: %d" % ("2" if quick else "3", bytype, e2e),
        "states": r.distinct, "exhaustive": True,
        "samples": [json.loads(d) for d in docs[1:6]],
    })
    ctx.assumptions += [
        "chunk-level mutation of one valid sample per type; bytes inside a chunk are never altered (no byte-level or coverage-guided fuzzing)",
        "deadline 10 s per input; an input that exceeds it is measured again alone with 90 s and counts as a hang only if it exceeds that as well",
    ]
