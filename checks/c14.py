"""C14 - pause stops all stages, resume wakes them all, the protocol never deadlocks.

1. TLC, exhaustive with fairness: Pause.tla (manager mutex, CAS, per-subscriber signal, Resume's receivers,
   worker select / blocking send / exit, late subscribers, shutdown) for every bounded script of pause and
   resume calls from two controllers: AckedImpliesPaused, PauseReachesAll (safety), CallsReturn,
   WorkersLeave (liveness: nobody is blocked forever).
2. The real pause package runs scripted scenarios (sequential, concurrent, unmatched, overlapping
   controllers; late subscriber; shutdown while paused) with stage-shaped workers, every call under a watchdog.
3. TLC validates the recording against C14_Mon (the statement) and TraceC14 (Pause.tla, internal steps
   interleaved by TLC).
4. The stage workers' own side of the protocol: the real pipeline is paused mid-crawl (every worker of the four
   stages must acknowledge, none may take work while the pause lasts), then resumed (every seed still finishes) or
   stopped while paused (Stop returns) - judged by C14P_Mon.
"""
import os

import vf

LEVEL = "model_checking"


def run(ctx):
    quick = ctx.tier == "quick"
    states = trans = 0
    for cfg in (["C14_exh_q.cfg", "C14_exh_q2.cfg"] if quick else ["C14_exh_q.cfg", "C14_exh_q2.cfg", "C14_exh_t.cfg"]):
        r = ctx.tlc("Pause", cfg, timeout=3000, name="exh-" + cfg[:-4])
        ctx.log("exhaustive %s: %d generated, %d distinct, %.1fs ok=%s" % (cfg, r.generated, r.distinct, r.wall, r.ok))
        if not r.ok:
            print(r.out[-3000:])
            raise vf.Inconclusive("Pause model violates %s under %s (specification error)" % (r.violated, cfg))
        states += r.distinct
        trans += r.generated
    ctx.build_harness()
    tpath = os.path.join(ctx.scratch, "c14.ndjson")
    died = False
    if ctx.replay and any('"c14.pause.call"' in ln for ln in open(ctx.replay)):
        pm = ctx.validate("C14P_Mon", "C14P_mon.cfg", ctx.replay, name="pmon-replay")
        pev = vf.read_ndjson(ctx.replay)
        for v in pm["viols"]:
            ctx.report("%s (pipeline replay)" % v["why"], replay_src=ctx.replay, tag="pipe", key="pipeline: " + v["why"])
        ctx.cov.update({"states": states, "transitions": trans, "traces_validated_against_impl": 1, "samples": ["replay of a pipeline pause run, %d events" % len(pev)]})
        return
    if ctx.replay:
        tpath = ctx.replay
    else:
        p = ctx.run_bin("unit-verif", ["c14", tpath, "80" if quick else "1200"], timeout=3000, check=False)
        died = p.returncode != 0
    events = vf.read_ndjson(tpath)
    if not ctx.replay and died:
        # a call that stays blocked keeps the manager's mutex; once the driver has moved on the Go runtime may kill
        # the process (unlock of a fresh mutex).  What was recorded until then is judged; if it shows nothing the
        # death of the driver itself is the finding to look at.
        ctx.log("driver exited %d after %d events: %s" % (p.returncode, len(events), " ".join(p.stderr.split())[:200]))
    mon = ctx.validate("C14_Mon", "C14_mon.cfg", tpath, name="mon")
    if mon["hwm"] < mon["total"]:
        raise vf.Inconclusive("C14_Mon stopped at line %d of %d" % (mon["hwm"], mon["total"]))
    kinds = {e["sc"]: e for e in events if e["ev"] == "start"}
    for v in mon["viols"]:
        e = events[v["l"] - 1]
        sc = e.get("sc")
        rp = os.path.join(ctx.scratch, "viol-sc%s.ndjson" % sc)
        vf.write_ndjson(rp, [x for x in events if x.get("sc") == sc])
        k = kinds.get(sc, {})
        ctx.report("%s (scenario %s kind=%s late=%s, event %s)" % (v["why"], sc, k.get("kind"), k.get("late"), {a: e[a] for a in e if a not in ("seq", "ws")}),
                   replay_src=rp, tag="sc", key="%s kind=%s late=%s" % (v["why"], k.get("kind"), k.get("late")))
    if died and not ctx.violations:
        raise vf.Inconclusive("driver died (exit %d) and the recorded events show no violation" % p.returncode)
    # ImplSpec binding; scenarios with a stuck call cannot be behaviours of the repaired model and are skipped after reporting
    bad = {e["sc"] for e in events if e["ev"] in ("stuck", "wstuck")}
    bad |= {e["sc"] for e in events if e["ev"] == "start" and e.get("kind") == "chain"}    # workers with a second blocking point: not Pause.tla's workers
    ipath = os.path.join(ctx.scratch, "impl.ndjson")
    vf.write_ndjson(ipath, [e for e in events if e.get("sc") not in bad])
    impl_ok = True
    try:
        impl = ctx.validate("TraceC14", "C14_trace.cfg", ipath, name="impl", dfs=True, timeout=900)
        if impl["hwm"] < impl["total"]:
            impl_ok = False
            ev = [e for e in events if e.get("sc") not in bad]
            e = ev[impl["hwm"]]
            ctx.note_drift("%s" % {a: e[a] for a in e if a != "seq"})
    except vf.Inconclusive as ex:
        impl_ok = False
        ctx.note_drift("ImplSpec validation inconclusive: %s" % str(ex)[:200])
    # the real stage workers: pause mid-crawl, hold, resume or stop
    npipe = 0
    if not ctx.replay:
        import subprocess
        from c01 import pipeline
        ctx.build_harness(("zeno-verif",))
        cases = [(2, 3, "resume"), (1, 2, "stop"), (3, 5, "stop"), (2, 2, "diskstop")] if quick else \
                [(w, k, m) for w in (1, 2, 3) for k in (1, 3, 8) for m in ("resume", "stop", "diskstop")]
        procs = [(c, pipeline(ctx, "p%d-%d-%s" % c, "c14", list(c))) for c in cases]
        for c, (p, t, d) in procs:
            try:
                out, err = p.communicate(timeout=600)
            except subprocess.TimeoutExpired:
                p.kill()
                raise vf.Inconclusive("pipeline run timed out")
            subprocess.run(["rm", "-rf", d])
            pev = vf.read_ndjson(t)
            npipe += 1
            if not any(e["ev"] == "run.end" for e in pev):
                if any(e["ev"] == "stop.stuck" for e in pev) or any(e["ev"] == "c14.settled" for e in pev):
                    pass  # judged below
                else:
                    raise vf.Inconclusive("pipeline run %s ended early: %s" % (c, " ".join((err or "").split())[-300:]))
            pm = ctx.validate("C14P_Mon", "C14P_mon.cfg", t, name="pmon-%d-%d-%s" % c)
            if pm["hwm"] < pm["total"]:
                raise vf.Inconclusive("C14P_Mon stopped at line %d of %d" % (pm["hwm"], pm["total"]))
            for v in pm["viols"]:
                e = pev[v["l"] - 1]
                ctx.report("%s (pipeline, workers=%d k=%d %s, event %s)" % ((v["why"],) + c + ({a: e[a] for a in e if a not in ("seq", "us", "tree")},)), replay_src=t, tag="pipe", key="pipeline: " + v["why"])
    calls = sum(1 for e in events if e["ev"] == "call")
    ctx.cov.update({
        "states": states, "transitions": trans, "exhaustive": True,
        "traces_validated_against_impl": len(kinds) + npipe,
        "evaluations": len(events), "distinct_nontrivial": calls,
        "rule": "events of scripted pause/resume scenarios on the real pause manager; non-trivial = controller calls; kinds: %s" % sorted({k["kind"] for k in kinds.values()}),
        "impl_spec_accepted": impl_ok,
        "samples": [[{a: e[a] for a in e if a != "seq"} for e in events if e.get("sc") == 1 and e["ev"] != "take"][:14]],
    })
    ctx.assumptions += [
        "part 2 uses harness goroutines shaped like the stage workers; part 4 uses the real stage workers",
        "a call that has not returned after 1.5 s is counted as blocked forever; workers work 1-3 ms per item",
        "snapshots are taken after work stopped being offered for 20 ms",
    ]
