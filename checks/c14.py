"""C14 - pause stops all stages, resume wakes them all, the protocol never deadlocks.

1. TLC, exhaustive with fairness: Pause.tla (manager mutex, CAS, per-subscriber signal, Resume's receivers,
   worker select / blocking send / exit, late subscribers, shutdown) for every bounded script of pause and
   resume calls from two controllers: AckedImpliesPaused, PauseReachesAll (safety), CallsReturn,
   WorkersLeave (liveness: nobody is blocked forever).
2. The real pause package runs scripted scenarios (sequential, concurrent, unmatched, overlapping
   controllers; late subscriber; shutdown while paused) with stage-shaped workers, every call under a watchdog.
3. TLC validates the recording against C14_Mon (the statement) and TraceC14 (Pause.tla, internal steps
   interleaved by TLC).
The stage workers' own side of the protocol (blocking on ResumeCh at shutdown) is exercised by the
pipeline-level checks (C03).
"""
import os

import vf

LEVEL = "model_checking"


def run(ctx):
    quick = ctx.tier == "quick"
    states = trans = 0
    for cfg in (["C14_exh_q.cfg", "C14_exh_q2.cfg"] if quick else ["C14_exh_q.cfg", "C14_exh_q2.cfg", "C14_exh_t.cfg"]):
        r = ctx.tlc("Pause", cfg, timeout=3000, name="exh-" + cfg[:-4])
        ctx.log("exhaustive %s: %d generated, %d distinct, %.1fs ok=%s" % (cfg, r.generated, r.distinct, r.wall, r.ok))
        if not r.ok:
            print(r.out[-3000:])
            raise vf.Inconclusive("Pause model violates %s under %s (specification error)" % (r.violated, cfg))
        states += r.distinct
        trans += r.generated
    ctx.build_harness()
    tpath = os.path.join(ctx.scratch, "c14.ndjson")
    if ctx.replay:
        tpath = ctx.replay
    else:
        ctx.run_bin("unit-verif", ["c14", tpath, "80" if quick else "1200"], timeout=3000)
    events = vf.read_ndjson(tpath)
    mon = ctx.validate("C14_Mon", "C14_mon.cfg", tpath, name="mon")
    if mon["hwm"] < mon["total"]:
        raise vf.Inconclusive("C14_Mon stopped at line %d of %d" % (mon["hwm"], mon["total"]))
    kinds = {e["sc"]: e for e in events if e["ev"] == "start"}
    for v in mon["viols"]:
        e = events[v["l"] - 1]
        sc = e.get("sc")
        rp = os.path.join(ctx.scratch, "viol-sc%s.ndjson" % sc)
        vf.write_ndjson(rp, [x for x in events if x.get("sc") == sc])
        k = kinds.get(sc, {})
        ctx.report("%s (scenario %s kind=%s late=%s, event %s)" % (v["why"], sc, k.get("kind"), k.get("late"), {a: e[a] for a in e if a not in ("seq", "ws")}),
                   replay_src=rp, tag="sc", key="%s kind=%s late=%s" % (v["why"], k.get("kind"), k.get("late")))
    # ImplSpec binding; scenarios with a stuck call cannot be behaviours of the repaired model and are skipped after reporting
    bad = {e["sc"] for e in events if e["ev"] in ("stuck", "wstuck")}
    ipath = os.path.join(ctx.scratch, "impl.ndjson")
    vf.write_ndjson(ipath, [e for e in events if e.get("sc") not in bad])
    impl_ok = True
    try:
        impl = ctx.validate("TraceC14", "C14_trace.cfg", ipath, name="impl", dfs=True, timeout=900)
        if impl["hwm"] < impl["total"]:
            impl_ok = False
            ev = [e for e in events if e.get("sc") not in bad]
            e = ev[impl["hwm"]]
            ctx.note_drift("%s" % {a: e[a] for a in e if a != "seq"})
    except vf.Inconclusive as ex:
        impl_ok = False
        ctx.note_drift("ImplSpec validation inconclusive: %s" % str(ex)[:200])
    calls = sum(1 for e in events if e["ev"] == "call")
    ctx.cov.update({
        "states": states, "transitions": trans, "exhaustive": True,
        "traces_validated_against_impl": len(kinds),
        "evaluations": len(events), "distinct_nontrivial": calls,
        "rule": "events of scripted pause/resume scenarios on the real pause manager; non-trivial = controller calls; kinds: %s" % sorted({k["kind"] for k in kinds.values()}),
        "impl_spec_accepted": impl_ok,
        "samples": [[{a: e[a] for a in e if a != "seq"} for e in events if e.get("sc") == 1 and e["ev"] != "take"][:14]],
    })
    ctx.assumptions += [
        "workers in this check are harness goroutines shaped like the stage workers (the real stage workers are exercised in C03)",
        "a call that has not returned after 1.5 s is counted as blocked forever; workers work 1-3 ms per item",
        "snapshots are taken after work stopped being offered for 20 ms",
    ]
