"""C06 - work per seed is bounded: redirects, asset depth, retries and hops.

1. TLC, exhaustive: Bounds.tla - one path of a seed's tree against an adversarial site (any mix of failures,
   redirects, nested documents, for ever): RedirectBound, DepthBound, RetryBound, PassBound, termination, and the
   outlink hop rule table (HopsOK), for max-redirect / max-retry / max-hops in 0..2.
2. The real pipeline crawls an origin that answers by pattern without end: redirect chains and loops, endlessly
   nested JSON documents (directly and through redirects), URLs failing for ever or max-retry times, self
   references, hub pages at every hop count with plain and domains-crawl-matching outlinks - for several settings
   of max-redirect, max-retry, max-hops, with and without --domains-crawl.
3. TLC (C06_Mon) checks chain indices, nesting depths and attempt counts on the origin's request log, passes per
   seed, hop values of every outlink and of every tree node; C01_Mon checks that every seed still finishes.
"""
import os
import subprocess

import vf
from c01 import pipeline

LEVEL = "model_checking"


def run(ctx):
    quick = ctx.tier == "quick"
    states = trans = 0
    for mr in ((2,) if quick else (0, 1, 2)):
        cfg = os.path.join(ctx.scratch, "bounds-%d.cfg" % mr)
        open(cfg, "w").write("SPECIFICATION Spec\nCONSTANTS\n  MaxRedirect = %d\n  MaxRetry = %d\n  MaxHops = %d\nINVARIANTS RedirectBound DepthBound RetryBound PassBound HopsOK\nPROPERTIES Terminates\nCHECK_DEADLOCK FALSE\n" % (mr, 2 - mr if mr < 2 else 2, mr))
        r = ctx.tlc("Bounds", cfg, workers=4, name="bounds-%d" % mr)
        if not r.ok:
            print(r.out[-3000:])
            raise vf.Inconclusive("Bounds model violates %s (specification error)" % r.violated)
        states += r.distinct
        trans += r.generated
    ctx.log("bounds model: %d states" % states)
    ctx.build_harness(("zeno-verif",))
    if ctx.replay:
        traces = [("replay", ctx.replay)]
    else:
        combos = [(2, 1, 1, 0, 3), (1, 2, 1, 1, 3), (0, 0, 0, 0, 3)] if quick else \
                 [(2, 1, 1, 0, 8), (1, 2, 1, 1, 8), (0, 0, 0, 0, 8), (3, 0, 2, 0, 8), (2, 2, 0, 1, 6), (1, 1, 2, 0, 8), (3, 1, 3, 1, 6)]
        procs = [pipeline(ctx, "r%dt%dh%dd%d" % c[:4], "c06", list(c)) for c in combos]
        traces = []
        for p, t, d in procs:
            try:
                out, err = p.communicate(timeout=900)
            except subprocess.TimeoutExpired:
                p.kill()
                raise vf.Inconclusive("pipeline run timed out")
            if p.returncode != 0:
                print(err[-2000:])
                ctx.log("pipeline process exited %d" % p.returncode)
            subprocess.run(["rm", "-rf", d])
            traces.append((os.path.basename(t), t))
    nev = nreq = nout = 0
    for name, t in traces:
        events = vf.read_ndjson(t)
        if any(e["ev"] == "trace.truncated" for e in events):
            # keep the head of the trace (it shows which bound is being ignored) and let the monitor say which one
            head = os.path.join(ctx.scratch, "head-" + name)
            vf.write_ndjson(head, [e for e in events[:1500] if e["ev"] != "trace.truncated"])
            ctx.report("the crawl did not stop: trace cut at the safety limit [%s]" % name, replay_src=head, tag="runaway", key="runaway crawl")
            mon = ctx.validate("C06_Mon", "C06_mon.cfg", head, name="C06_Mon-head-" + name, timeout=1200, heap="8g")
            for v in mon["viols"]:
                e = events[v["l"] - 1]
                ctx.report("%s [%s] %s" % (v["why"], name, {k: e[k] for k in e if k not in ("seq", "us", "tree")}), replay_src=head, tag="run", key=v["why"])
            continue
        nev += len(events)
        nreq += sum(1 for e in events if e["ev"] == "req")
        nout += sum(len(e.get("outlinks", [])) for e in events if e["ev"] == "post.done")
        if not any(e["ev"] == "run.end" for e in events):
            ctx.report("pipeline process died before the run ended", replay_src=t, tag="crash", key="pipeline crashed")
        for mod, cfg in (("C06_Mon", "C06_mon.cfg"), ("C01_Mon", "C01_mon.cfg")):
            mon = ctx.validate(mod, cfg, t, name="%s-%s" % (mod, name), timeout=1200, heap="8g")
            if mon["hwm"] < mon["total"]:
                raise vf.Inconclusive("%s stopped at line %d of %d" % (mod, mon["hwm"], mon["total"]))
            for v in mon["viols"]:
                e = events[v["l"] - 1]
                ctx.report("%s [%s] %s" % (v["why"], name, {k: e[k] for k in e if k not in ("seq", "us", "tree")}), replay_src=t, tag="run", key=v["why"])
    ctx.cov.update({
        "states": states, "transitions": trans, "exhaustive": True,
        "traces_validated_against_impl": len(traces),
        "evaluations": nev, "distinct_nontrivial": nreq,
        "rule": "evaluations = trace events; distinct_nontrivial = requests received by the adversarial origin (each judged); outlinks judged: %d; settings %s" % (nout, [t[0] for t in traces]),
        "samples": [t[0] for t in traces],
    })
    ctx.assumptions += [
        "chain index / nesting depth / retry target are encoded in the URL by construction of the origin's patterns",
        "depth and pass bounds are only required without --domains-crawl (as the statement says); nested documents are JSON (M3U8 bodies are not kept by ProcessBody, see C19)",
    ]
