"""C17 - operational counters are exact under concurrency.

1. TLC, exhaustive: Stats.tla (one action per atomic operation of counter / rate / mean) for three goroutines
   running mixed programs: at quiescence the mean is the outcome of some sequential order of the operations
   (MeanExact), totals and gauges equal the number of events (TotalExact, GaugeExact).  With the unrepaired
   two-step mean (MeanLocked = FALSE) TLC produces the add/reset tearing; that schedule is replayed on the
   real package through the hook between the two steps (the "gated" rounds).
2. The real stats package is hammered from 16 goroutines (increments of every total, gauge ups/downs,
   concurrent readers and rate resets; means fed with a constant value racing with resets).
3. TLC (C17_Mon) compares the quiescent readings with the per-goroutine event counts.
Worker gauges are read in real pipeline runs (1-3 workers per stage): equal to the worker count while running, zero after Stop.
"""
import os
import subprocess

import vf
from c01 import pipeline

LEVEL = "model_checking"


def run(ctx):
    quick = ctx.tier == "quick"
    r = ctx.tlc("StatsMC", "C17_exh.cfg", workers=8, name="exh")
    ctx.log("exhaustive: %d generated, %d distinct ok=%s" % (r.generated, r.distinct, r.ok))
    if not r.ok:
        print(r.out[-3000:])
        raise vf.Inconclusive("Stats model violates %s (specification error)" % r.violated)
    ctx.build_harness(("unit-verif", "zeno-verif"))
    tpath = os.path.join(ctx.scratch, "c17.ndjson")
    if ctx.replay:
        tpath = ctx.replay
    else:
        g, n, rounds = (16, 20000, 8) if quick else (16, 100000, 40)
        ctx.run_bin("unit-verif", ["c17", tpath, str(g), str(n), str(rounds)], timeout=1800)
    events = vf.read_ndjson(tpath)
    mon = ctx.validate("C17_Mon", "C17_mon.cfg", tpath, name="mon")
    if mon["hwm"] < mon["total"]:
        raise vf.Inconclusive("C17_Mon stopped at line %d of %d" % (mon["hwm"], mon["total"]))
    for v in mon["viols"]:
        e = events[v["l"] - 1]
        ctx.report("%s %s" % (v["why"], {k: e[k] for k in e if k != "seq"}), replay_src=tpath, tag="trace", key=v["why"])
    # worker gauges against live workers: pipeline runs with 1, 2 and 3 workers per stage
    gauges = 0
    if not ctx.replay:
        procs = [pipeline(ctx, "g%d" % w, "c01", [6, w, 1]) for w in (1, 2, 3)]
        # ... and after stops that catch the workers elsewhere than idle: paused, busy, blocked on a full channel
        moments = ["paused", "hook:post.take:2", "hold:post.take:2", "hold:arch.take:2"] if quick else \
                  ["paused", "diskpaused", "midfetch", "hook:post.take:2", "hold:post.take:2", "hold:arch.take:2", "hold:pre.take:2", "hold:fin.finish:1", "hook:arch.item.response:3"]
        procs += [pipeline(ctx, "s%d" % i, "c03", [2 + i % 2, 1, 0, 0, 1, 0, m]) for i, m in enumerate(moments)]
        for p, t, d in procs:
            try:
                p.communicate(timeout=600)
            except subprocess.TimeoutExpired:
                p.kill()
                raise vf.Inconclusive("pipeline run timed out")
            subprocess.run(["rm", "-rf", d])
            gev = vf.read_ndjson(t)
            gauges += sum(1 for e in gev if e["ev"] == "gauges")
            gm = ctx.validate("C17_Mon", "C17_mon.cfg", t, name="gauges-" + os.path.basename(t))
            for v in gm["viols"]:
                e = gev[v["l"] - 1]
                ctx.report("%s %s" % (v["why"], {k: e[k] for k in e if k not in ("seq", "us")}), replay_src=t, tag="gauges", key=v["why"])
    ops = sum(e.get("urls", 0) + e.get("seeds", 0) + sum(e.get(c, 0) for c in ("c200", "c301", "c404", "c500", "c503"))
              for e in events if e["ev"] == "burst.batch")
    ops += sum(e["adds"] + e["resets"] for e in events if e["ev"] == "mean.round")
    reads = [e for e in events if e["ev"] in ("burst.read", "mean.round")]
    ctx.cov.update({
        "states": r.distinct, "transitions": r.generated, "exhaustive": True,
        "traces_validated_against_impl": 1,
        "evaluations": ops, "distinct_nontrivial": len(reads) + gauges,
        "gauge_readings": gauges,
        "rule": "evaluations = operations issued on the real stats package; distinct_nontrivial = quiescent readings compared by TLC (burst reads and mean rounds, incl. 6 gated add/reset schedules)",
        "samples": [reads[0], reads[-1]],
    })
    ctx.assumptions += [
        "only quiescent readings are required to be exact (the statement says 'after any concurrent burst')",
        "gauge resets while workers are alive are not exercised (a reset forgets live workers by design)",
        "a lost update is only visible if it happens: 16 goroutines x 2*10^4 (thorough 10^5) operations per round",
    ]
