"""C16 - resource use does not grow with the number of seeds processed.

1. TLC, exhaustive with fairness: Resources.tla - every path of an item through archive() / ProcessBody /
   postprocess (transport errors with retries, bad statuses drained and closed, text-like bodies spooled, other
   bodies discarded, body errors, retries exhausted): when the seed is finished no response body, spooled body or
   per-item goroutine is left and the reactor entry and token are gone (NothingLeft), and it always finishes.
2. The real pipeline processes N seeds, then 3N more in the same process: large text/html bodies spooled to temp
   files (> 2 MiB), URLs failing for good, dropped connections, redirect chains, pages with assets spread over
   10 hosts (more than the limiter may keep buckets for).  At both quiescent points the footprint is measured
   after a settle loop: /proc/self/fd, runtime.NumGoroutine, WARC temp dir, reactor state table, tokens in use,
   rate limiter buckets.
3. TLC (C16_Mon) compares the two footprints; C01_Mon checks that every seed was finished.
"""
import os
import subprocess

import vf
from c01 import pipeline

LEVEL = "model_checking"


def run(ctx):
    quick = ctx.tier == "quick"
    r = ctx.tlc("Resources", "C16_model.cfg", workers=4, name="model")
    ctx.log("Resources model: %d states ok=%s" % (r.distinct, r.ok))
    if not r.ok:
        print(r.out[-3000:])
        raise vf.Inconclusive("Resources model violates %s (specification error)" % r.violated)
    ctx.build_harness(("zeno-verif",))
    if ctx.replay:
        traces = [("replay", ctx.replay)]
    else:
        ns = [24] if quick else [60, 150]
        procs = [pipeline(ctx, "n%d" % n, "c16", [n]) for n in ns]
        traces = []
        for p, t, d in procs:
            try:
                out, err = p.communicate(timeout=3000)
            except subprocess.TimeoutExpired:
                p.kill()
                raise vf.Inconclusive("pipeline run timed out")
            if p.returncode != 0:
                print(err[-2000:])
            subprocess.run(["rm", "-rf", d])
            traces.append((os.path.basename(t), t))
    fps = []
    nev = 0
    for name, t in traces:
        events = vf.read_ndjson(t)
        nev += len(events)
        if not any(e["ev"] == "run.end" for e in events):
            ctx.report("pipeline process died before the run ended", replay_src=t, tag="crash", key="pipeline crashed")
        f = [e for e in events if e["ev"] == "footprint"]
        if len(f) < 2:
            raise vf.Inconclusive("run %s produced %d footprints" % (name, len(f)))
        fps += f
        for mod, cfg in (("C16_Mon", "C16_mon.cfg"), ("C01_Mon", "C01_mon.cfg")):
            mon = ctx.validate(mod, cfg, t, name="%s-%s" % (mod, name), timeout=2400, heap="8g")
            if mon["hwm"] < mon["total"]:
                raise vf.Inconclusive("%s stopped at line %d of %d" % (mod, mon["hwm"], mon["total"]))
            for v in mon["viols"]:
                e = events[v["l"] - 1]
                ctx.report("%s [%s] %s" % (v["why"], name, {k: e[k] for k in e if k not in ("seq", "us", "tree")}), replay_src=t, tag="run", key=v["why"])
    # the limiter table's bound with many penalised hosts (more hosts than the origin server can offer)
    from c13 import manager_table
    ctx.build_harness(("unit-verif",))
    manager_table(ctx, quick, ("exceeds its bound",))
    ctx.cov.update({
        "states": r.distinct, "transitions": r.generated, "exhaustive": True,
        "traces_validated_against_impl": len(traces),
        "evaluations": sum(f["seeds"] for f in fps if f["label"] == "4N"), "distinct_nontrivial": len(fps),
        "rule": "evaluations = seeds processed; distinct_nontrivial = quiescent footprints compared; trace events %d" % nev,
        "samples": [{k: f[k] for k in f if k not in ("seq", "us")} for f in fps[:2]],
    })
    ctx.assumptions += [
        "footprints are taken after a settle loop (descriptors and goroutines unchanged for one second)",
        "shutdown is excluded (the statement is about the drained, running crawler)",
    ]
