"""C04 - a stopped or killed job resumes all unfinished seeds; finished implies captured.

1. TLC, exhaustive with fairness: LocalQueue.tla - rows FRESH / CLAIMED / gone, claim transaction, consumer
   buffer, reactor, capture, finish batch, delete transaction, with Kill and graceful Stop enabled in every state
   (up to two of them) and Restart: FinishedCaptured, NoStranded, and the liveness Drains.  Without the reset of
   CLAIMED rows at start-up (the pinned commit) NoStranded fails.
2. Two real processes per case on one job directory: run 1 is killed (SIGKILL to itself from inside the hook, i.e.
   at that very instruction) or stopped gracefully at the k-th occurrence of an instrumented point in the claim /
   buffer / insert / stage / finish / delete paths, or killed at a seeded random time; run 2 restarts the job with
   the origin on the same addresses, first reports the queue rows and parses the WARC files left behind, then
   crawls until the queue is drained or idle.
3. TLC (C04_Mon) checks the concatenated traces of both runs.
4. TLC (TraceC04) validates the same traces against LocalQueue.tla itself: every claim / push / take / finish /
   delete / kill / stop / restart must be the model's action on the model's state, and the rows the second process
   finds in lq.db must be the model's rows (SPEC-DRIFT otherwise).
"""
import os
import subprocess

import vf

LEVEL = "model_checking"

POINTS = ["lq.claim", "lq.buffer.put", "lq.sender.take", "pre.take", "pre.done", "arch.take", "arch.item.response",
          "arch.item.archived", "post.take", "fin.finish", "lq.finish.recv", "lq.delete", "req"]


def two_runs(ctx, tag, mode, n=8, w=2):
    d = os.path.join(ctx.scratch, "job-" + tag)
    t1 = os.path.join(ctx.scratch, "t1-%s.ndjson" % tag)
    t2 = os.path.join(ctx.scratch, "t2-%s.ndjson" % tag)
    zv = os.path.join(ctx.bindir, "zeno-verif")
    env = dict(os.environ, VERIF_SEED=str(ctx.seed))
    p1 = subprocess.run([zv, "c04", d, t1, "run1", mode, str(n), str(w)], stdout=subprocess.PIPE, stderr=subprocess.PIPE, text=True, env=env, timeout=200)
    p2 = subprocess.run([zv, "c04", d, t2, "run2", "-", str(n), str(w)], stdout=subprocess.PIPE, stderr=subprocess.PIPE, text=True, env=env, timeout=300)
    subprocess.run(["rm", "-rf", d])
    return p1, p2, t1, t2


def run(ctx):
    quick = ctx.tier == "quick"
    r = ctx.tlc("LocalQueue", "C04_model.cfg", workers=8, timeout=1200, name="model")
    ctx.log("LocalQueue model: %d distinct states ok=%s" % (r.distinct, r.ok))
    if not r.ok:
        print(r.out[-3000:])
        raise vf.Inconclusive("LocalQueue model violates %s (specification error)" % r.violated)
    ctx.build_harness(("zeno-verif", "unit-verif"))
    import random
    rng = random.Random(ctx.seed)
    modes = []
    ks = (1, 2) if quick else (1, 2, 3, 5)
    for pnt in POINTS:
        for k in ks:
            if quick and (POINTS.index(pnt) + k + ctx.seed) % 2:
                continue
            modes.append("kill:%s:%d" % (pnt, k))
    for pnt in (["pre.take", "arch.take", "lq.sender.take", "fin.finish"] if quick else POINTS):
        modes.append("stop:%s:%d" % (pnt, 1 + rng.randrange(3)))
    for i in range(2 if quick else 12):
        modes.append("killtime:%d" % rng.randrange(30, 900))
    # one worker (every finish is acknowledged at once) and a body the WARC writer needs a while for: killed at the
    # very first delete, the finished seed must already be in the WARC
    modes.append("big+kill:lq.delete:1")
    modes.append("big503+kill:lq.delete:1")
    # the same for a page requisite: the first asset of the first page is slow to write, the small ones next to it are not
    # (which request of a page starts last is up to the scheduler: several cases)
    modes += ["bigasset+kill:lq.finish.recv@seed-bigasset:1"] * (3 if quick else 6)
    # a graceful stop while the first attempt of a URL is in flight; the attempt is cut after the stop began, the retry
    # would succeed (the worker hands a finished seed on only every other time: several cases)
    modes += ["flaky+stop:req:1"] * (5 if quick else 10)
    if ctx.replay:
        modes = []
    from concurrent.futures import ThreadPoolExecutor
    results = []
    with ThreadPoolExecutor(max_workers=8) as ex:
        futs = {ex.submit(two_runs, ctx, "m%d" % i, m, *((3, 1) if m.startswith("big") or m.startswith("flaky") else (8, 2))): m for i, m in enumerate(modes)}
        for f in futs:
            try:
                results.append((futs[f],) + f.result())
            except subprocess.TimeoutExpired:
                raise vf.Inconclusive("a pipeline run of case %s timed out" % futs[f])
    traces = []
    for ri, (mode, p1, p2, t1, t2) in enumerate(results):
        if not os.path.exists(t1) or not os.path.exists(t2):
            raise vf.Inconclusive("case %s produced no trace" % mode)
        mode = "%s#%d" % (mode, ri) if (mode.startswith("flaky") or mode.startswith("bigasset")) else mode     # the same case may run several times
        cat = os.path.join(ctx.scratch, "cat-%s.ndjson" % mode.replace(":", "_"))
        with open(cat, "w") as out:
            out.write(open(t1).read())
            out.write(open(t2).read())
        traces.append((mode, cat, p2.returncode, p2.stderr))
    if ctx.replay:
        traces = [("replay", ctx.replay, 0, "")]
    nimpl = 0
    nevents = 0
    for mode, cat, rc2, err2 in traces:
        events = vf.read_ndjson(cat)
        nevents += len(events)
        if not any(e["ev"] == "run.end" for e in events):
            ctx.report("the restarted crawler died (%s): %s" % (mode, " ".join((err2 or "").split())[-300:]), replay_src=cat, tag="crash", key="restarted process died")
            continue
        impl = ctx.validate("TraceC04", "C04_trace.cfg", cat, name="impl-" + mode.replace(":", "_").replace("+", "_").replace("#", "_"))
        nimpl += 1
        if impl["hwm"] < impl["total"] or "ModelInvariants is violated" in impl["out"]:
            ctx.note_drift("case %s: event %d (%s) is not a step of LocalQueue.tla" % (mode, impl["hwm"] + 1, events[min(impl["hwm"], len(events) - 1)]["ev"]), cat)
        for dft in impl["drift"][:3]:
            ctx.note_drift("case %s: %s differ from the model's rows" % (mode, dft["why"]), cat)
        mon = ctx.validate("C04_Mon", "C04_mon.cfg", cat, name="mon-" + mode.replace(":", "_").replace("+", "_").replace("#", "_"))
        if mon["hwm"] < mon["total"]:
            raise vf.Inconclusive("C04_Mon stopped at line %d of %d" % (mon["hwm"], mon["total"]))
        phase2 = False
        seen2 = set()
        for e in events:
            if e["ev"] == "c04.phase" and e["phase"] == "run2":
                phase2 = True
            if phase2 and e["ev"] == "seencheck.get" and e["found"]:
                seen2.add(e["u"])
        for v in mon["viols"]:
            why = v["why"]
            sid = why.split("id=")[-1] if "id=" in why else ""
            key = why.split(" id=")[0]
            url = {e["id"]: e["u"] for e in events if e["ev"] == "queued"}.get(sid)
            if "not crawled again" in why and url in seen2:
                key += ": skipped as already seen (its seencheck record was written before the crash)"
            ctx.report("%s [%s]" % (why, mode), replay_src=cat, tag="case", key=key)
    # the restart step on its own, with no time between claim and restart (a process restart here always takes > 1 s)
    if not ctx.replay:
        ipath = os.path.join(ctx.scratch, "c04init.ndjson")
        ctx.run_bin("unit-verif", ["c04init", ipath, "5" if quick else "40"], timeout=600)
        im = ctx.validate("C04_Mon", "C04_mon.cfg", ipath, name="mon-init")
        for v in im["viols"]:
            ctx.report("%s [restart step right after the claim]" % v["why"], replay_src=ipath, tag="init", key=v["why"])
    ctx.cov.update({
        "states": r.distinct, "transitions": r.generated, "exhaustive": True,
        "traces_validated_against_impl": len(traces),
        "evaluations": nevents, "distinct_nontrivial": len({t[0] for t in traces}),
        "rule": "evaluations = recorded events of both processes judged; distinct_nontrivial = distinct (kill | graceful stop | random-time kill) + restart cases, two processes each",
        "samples": [t[0] for t in traces[:8]],
    })
    ctx.assumptions += [
        "SIGKILL semantics (process death); power loss / un-fsynced pages are not modelled",
        "the restarted crawl is given 45 s without activity before the queue rows are judged",
    ]
