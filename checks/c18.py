"""C18 - low-disk guard: threshold semantics are exact and monotone.

0. TLC, exhaustive: DiskWatch (the running guard's loop: tick / stop / volume changes; pause state = last decision,
   Pause and Resume balanced, a low volume is eventually paused; negative configuration: level-triggered Pause).
   TraceC18 replays every recorded tick of the real WatchDiskSpace as DiskWatch's Tick action (SPEC-DRIFT on mismatch).
1. TLC, exhaustive: DiskGuard grid model (unit 1 GiB, total 0..300, msr in half GiB): the code-shaped
   decision equals the statement, is monotone in free space and continuous at 256 GiB.
2. The real checkThreshold is driven over boundary classes (256 GiB +-1/+-128 bytes, thresholds with
   fractional part, +-1/2 bytes around the threshold) and seeded random triples; CheckDiskUsage and
   WatchDiskSpace run against the real scratch volume with the setting moved across its free space.
3. TLC (C18_Mon) redoes every decision in exact split arithmetic and checks monotone series.
"""
import os

import vf

LEVEL = "model_checking"


def startup_two_volumes(ctx, tpath):
    """The real start-up with the job directory on another volume than the working directory, both ways round; the
    outcome of each process (started / "can't start Zeno") becomes one decision record for C18_Mon."""
    import json, shutil, subprocess, tempfile
    shm = "/dev/shm"
    if not (os.path.isdir(shm) and os.access(shm, os.W_OK)):
        ctx.log("two-volume start-up case skipped: no second writable volume (/dev/shm)")
        return 0
    n = 0
    for k, (dparent, oparent) in enumerate(((ctx.scratch, shm), (shm, ctx.scratch))):
        d = tempfile.mkdtemp(prefix="verif-c18-", dir=dparent)
        os.rmdir(d)
        other = tempfile.mkdtemp(prefix="verif-c18o-", dir=oparent)
        t = os.path.join(ctx.scratch, "c18start-%d.ndjson" % k)
        try:
            p = subprocess.run([os.path.join(ctx.bindir, "zeno-verif"), "c18start", d, t, other], capture_output=True, text=True, timeout=180,
                               env=dict(os.environ, VERIF_SEED=str(ctx.seed)))
        except subprocess.TimeoutExpired:
            raise vf.Inconclusive("the start-up scenario did not end")
        finally:
            shutil.rmtree(d, ignore_errors=True)
            shutil.rmtree(other, ignore_errors=True)
        evs = vf.read_ndjson(t) if os.path.exists(t) else []
        if any(e["ev"] == "startup.skip" for e in evs):
            ctx.log("two-volume start-up case skipped: the volumes have the same free space")
            continue
        tries = [e for e in evs if e["ev"] == "startup.try"]
        if not tries:
            print(p.stdout[-1000:], p.stderr[-1000:])
            raise vf.Inconclusive("the start-up scenario recorded nothing")
        accepted = any(e["ev"] == "startup.accepted" for e in evs)
        refused = (not accepted) and p.returncode == 1 and "can't start Zeno" in p.stdout
        if not accepted and not refused:
            print(p.stdout[-1000:], p.stderr[-1000:])
            raise vf.Inconclusive("the start-up was neither accepted nor refused (exit %d)" % p.returncode)
        e = {k2: v for k2, v in tries[0].items() if k2 not in ("seq", "us")}
        e.update(ev="thr", ser=900001 + k, refused=refused)
        with open(tpath, "a") as f:
            f.write(json.dumps(e) + "\n")
        n += 1
    return n


def run(ctx):
    quick = ctx.tier == "quick"
    r = ctx.tlc("DiskGuard", "C18_grid.cfg", workers=8, name="grid")
    ctx.log("grid model: %d states, ok=%s" % (r.distinct, r.ok))
    if not r.ok:
        print(r.out[-2000:])
        raise vf.Inconclusive("DiskGuard grid model does not satisfy its invariants (specification error)")
    # the running guard as a state machine (DiskWatch): pause state = last decision, Pause / Resume balanced, liveness;
    # negative configuration: Pause on every low tick (level- instead of edge-triggered) must be rejected
    w = ctx.tlc("DiskWatch", "C18_watch.cfg", workers=2, name="watch")
    wn = ctx.tlc("DiskWatch", "C18_watch_level.cfg", workers=2, name="watch-neg")
    ctx.log("running-guard model: %d states, ok=%s; level-triggered variant rejected=%s" % (w.distinct, w.ok, not wn.ok))
    if not w.ok or wn.ok or "PauseBalanced is violated" not in wn.out:
        print(w.out[-2000:], wn.out[-2000:])
        raise vf.Inconclusive("DiskWatch model: the code-shaped configuration must hold and the level-triggered one must be rejected (specification error)")
    ctx.build_harness(("unit-verif", "zeno-verif"))
    tpath = os.path.join(ctx.scratch, "c18.ndjson")
    if ctx.replay:
        tpath = ctx.replay
    else:
        ctx.run_bin("unit-verif", ["c18", tpath, "300" if quick else "6000"], timeout=300)
        # the setting as the command line delivers it (flag declared and bound the way the command does), one value
        # per process: not given, fractions, and every integer the default / alias handling could single out
        vals = ["none", "0.5", "1", "8", "19.99", "20", "20.0", "20.5", "21", "50", "64.25", "256", "1000"]
        if not quick:
            vals += [str(v) for v in range(2, 130)] + ["%d.5" % v for v in range(0, 60)]
        for v in vals:
            ctx.run_bin("unit-verif", ["c18cfg", tpath, v], timeout=60)
        nst = startup_two_volumes(ctx, tpath)
        ctx.log("start-up decisions with the job on another volume: %d" % nst)
    events = vf.read_ndjson(tpath)
    mon = ctx.validate("C18_Mon", "C18_mon.cfg", tpath, name="mon")
    impl = ctx.validate("TraceC18", "C18_trace.cfg", tpath, name="impl")
    for d in impl["drift"][:20]:
        e = events[d["l"] - 1]
        ctx.note_drift("watch tick below=%s flag=%s paused=%s" % (e.get("below"), e.get("flag"), e.get("paused")))
    if impl["hwm"] < impl["total"]:
        raise vf.Inconclusive("TraceC18 stopped at line %d of %d" % (impl["hwm"], impl["total"]))
    if mon["hwm"] < mon["total"]:
        raise vf.Inconclusive("C18_Mon stopped at line %d of %d" % (mon["hwm"], mon["total"]))
    for v in mon["viols"]:
        e = events[v["l"] - 1]
        ctx.report("%s %s" % (v["why"], {k: e[k] for k in e if k not in ("seq",)}), replay_src=tpath, tag="trace",
                   key="%s cls=%s" % (v["why"], e.get("cls", e.get("ev"))))
    thr = [e for e in events if e["ev"] == "thr"]
    classes = {}
    for e in thr:
        classes[e["cls"]] = classes.get(e["cls"], 0) + 1
    distinct = len({(e["tq"], e["tr"], e["fq"], e["fr"], e["msrv"]) for e in thr})
    ctx.cov.update({
        "states": r.distinct + w.distinct, "transitions": r.generated + w.generated, "exhaustive": True,
        "traces_validated_against_impl": 1,
        "evaluations": len(events), "distinct_nontrivial": distinct,
        "rule": "decisions of the real checkThreshold / CheckDiskUsage / WatchDiskSpace; distinct = distinct (total, free, setting) triples; classes: %s" % classes,
        "watch_ticks": sum(1 for e in events if e["ev"] == "watch"),
        "samples": [thr[0], thr[len(thr) // 2], [e for e in events if e["ev"] == "watch"][:1]],
    })
    ctx.assumptions += [
        "exact value of min-space-required * 2^30 is computed from the float64 bits with math/big in the harness (trusted)",
        "totals below 8 TiB (TLC integers are 32 bit; byte counts are split as q*2^20+r)",
        "the running guard is exercised with settings far from the volume's real free space (+-5 GiB)",
    ]
