"""C05 - no request is ever sent for a URL outside the operator's scope.

1. TLC, exhaustive: Scope.tla - the decision procedure of NormalizeURL + preprocess()'s filter block over the
   whole product of abstract attributes (position x scheme x host class x include/exclude matches): a request is
   only built for an in-scope URL.
2. The real preprocess() runs on trees carrying a target URL as seed / redirect target / asset / asset of an asset
   under include-host, include-string, exclude-host (incl. the defaults added by GenerateCrawlConfig),
   exclude-string and exclusion-file regex configurations: one isolated out-of-scope reason per case, combined
   cases and seeded random combinations, absolute and relative spellings.
3. Whenever a request is attached, its URL is classified by plain string operations following the statement and
   TLC (C05_Mon) checks InScope.
End-to-end request logs of the pipeline runs (C01/C07) are fed through the same classifier.
"""
import os

import vf

LEVEL = "model_checking"


def run(ctx):
    quick = ctx.tier == "quick"
    r = ctx.tlc("Scope", "C05_scope.cfg", workers=4, name="scope")
    ctx.log("scope model: %d states ok=%s" % (r.distinct, r.ok))
    if not r.ok:
        print(r.out[-3000:])
        raise vf.Inconclusive("Scope model violates %s (specification error)" % r.violated)
    ctx.build_harness()
    tpath = os.path.join(ctx.scratch, "c05.ndjson")
    if ctx.replay:
        tpath = ctx.replay
    else:
        ctx.run_bin("unit-verif", ["c05", tpath, "1500" if quick else "30000"], timeout=1800)
    events = vf.read_ndjson(tpath)
    mon = ctx.validate("C05_Mon", "C05_mon.cfg", tpath, name="mon", timeout=3000, heap="8g")
    if mon["hwm"] < mon["total"]:
        raise vf.Inconclusive("C05_Mon stopped at line %d of %d" % (mon["hwm"], mon["total"]))
    for v in mon["viols"]:
        e = events[v["l"] - 1]
        rp = os.path.join(ctx.scratch, "viol-%d.ndjson" % v["l"])
        vf.write_ndjson(rp, [e])
        ctx.report("%s text=%r parent=%r cfg=%s req=%r" % (v["why"], e["text"], e["parent"], e["cfg"], e["req"]), replay_src=rp, tag="case",
                   key="%s cls=%s" % (v["why"], e["cls"]))
    by = {}
    for e in events:
        k = (e["cls"], e["outcome"].split(":")[0])
        by[k] = by.get(k, 0) + 1
    reqs = [e for e in events if e["outcome"] == "request"]
    ctx.cov.update({
        "states": r.distinct, "transitions": r.generated, "exhaustive": True,
        "traces_validated_against_impl": 1,
        "evaluations": len(events), "distinct_nontrivial": len({(e["pos"], e["cls"], e["outcome"]) for e in events}),
        "rule": "evaluations = preprocess() runs; distinct = (position, class, outcome) combinations; requests built: %d; by class/outcome: %s" % (len(reqs), sorted(by.items())),
        "samples": [{k: e[k] for k in ("cls", "pos", "text", "cfg", "outcome", "req")} for e in (events[0], reqs[0], reqs[-1])],
    })
    ctx.assumptions += [
        "the classifier (harness, plain string operations on the request URL) is trusted; filters and hosts are ASCII (IDN spellings of an excluded host are not generated)",
        "one-directional: only 'no request outside the scope' is judged here; that in-scope URLs are fetched is C01/C07",
    ]
