"""C19 - structured documents yield all their links; bucket listings are fully walked.

1. TLC, exhaustive with fairness: S3Walk.tla - every bucket with up to 3 (thorough 4) keys over a 3-level
   prefix tree, any subset of zero-size objects, page sizes 1..3, legacy (marker) and V2 (continuation token,
   delimiter, common prefixes) listings: Sound, Complete, BoundedWalk, Terminates.
2. Bucket walks through the real extractor.S3: a simulated bucket server with the specification's listing
   semantics; the walk follows whatever links the extractor returns, page by page (all buckets up to 3 keys over
   the model's key universe plus seeded larger ones).  TLC (TraceC19) checks each page of the harness's server
   and each link set against S3Walk.tla, and the final object set / page count against the statement.
3. Documents: JSON (values at any depth, arrays, JSON embedded in strings, compact and pretty), XML (attributes,
   namespaced attributes, text nodes, CDATA), RSS, sitemaps, M3U8 media and master playlists, with URLs planted
   by construction, crawled by the real pipeline; TLC (C07_Mon) requires every URL with a file extension to have
   been fetched and every other one to have been queued when the seed is reported finished.
"""
import os
import subprocess

import vf
from c01 import pipeline

LEVEL = "model_checking"


def run(ctx):
    quick = ctx.tier == "quick"
    r = ctx.tlc("S3Walk", "C19_s3.cfg" if quick else "C19_s3_t.cfg", timeout=3000, name="s3")
    ctx.log("S3 walk model: %d distinct states, %.1fs ok=%s" % (r.distinct, r.wall, r.ok))
    if not r.ok:
        print(r.out[-3000:])
        raise vf.Inconclusive("S3Walk model violates %s (specification error)" % r.violated)
    ctx.build_harness(("unit-verif", "zeno-verif"))
    if ctx.replay:
        impl = ctx.validate("TraceC19", "C19_trace.cfg", ctx.replay, name="walks")
        for v in impl["viols"]:
            ctx.report(v["why"], replay_src=ctx.replay, key=v["why"])
        ctx.cov.update({"states": r.distinct, "transitions": r.generated, "traces_validated_against_impl": 1, "samples": ["replay"]})
        return
    # bucket walks
    wpath = os.path.join(ctx.scratch, "walks.ndjson")
    ctx.run_bin("unit-verif", ["c19", wpath, "400" if quick else "6000", "3"], timeout=1200)
    wev = vf.read_ndjson(wpath)
    impl = ctx.validate("TraceC19", "C19_trace.cfg", wpath, name="walks", timeout=3000, heap="8g")
    if impl["hwm"] < impl["total"]:
        raise vf.Inconclusive("TraceC19 stopped at line %d of %d" % (impl["hwm"], impl["total"]))
    starts = {e["walk"]: e for e in wev if e["ev"] == "s3.start"}
    for v in impl["viols"]:
        e = wev[v["l"] - 1]
        if v["why"].startswith("HARNESS"):
            raise vf.Inconclusive("the harness's bucket server disagrees with S3Walk.tla at line %d" % v["l"])
        w = e["walk"]
        rp = os.path.join(ctx.scratch, "walk-%d.ndjson" % w)
        vf.write_ndjson(rp, [x for x in wev if x.get("walk") == w])
        st = starts[w]
        ctx.report("%s (bucket %s zero %s page size %d %s)" % (v["why"], st["bucket"], st["zero"], st["n"], "V2" if st["v2"] else "legacy"),
                   replay_src=rp, tag="walk", key="%s %s" % (v["why"], "V2" if st["v2"] else "legacy"))
    for d in impl["drift"][:10]:
        e = wev[d["l"] - 1]
        ctx.note_drift("walk %s request %s: links differ from S3Walk.tla" % (e["walk"], e["req"]))
    # documents through the pipeline
    p, t, d = pipeline(ctx, "docs", "c19", [72 if quick else 900])
    try:
        out, err = p.communicate(timeout=1500)
    except subprocess.TimeoutExpired:
        p.kill()
        raise vf.Inconclusive("pipeline run timed out")
    if p.returncode != 0:
        print(err[-2000:])
    subprocess.run(["rm", "-rf", d])
    dev = vf.read_ndjson(t)
    if not any(e["ev"] == "run.end" for e in dev):
        ctx.report("pipeline process died before the run ended", replay_src=t, tag="crash", key="pipeline crashed")
    for mod, cfg in (("C07_Mon", "C07_mon.cfg"), ("C01_Mon", "C01_mon.cfg")):
        mon = ctx.validate(mod, cfg, t, name=mod + "-docs", timeout=2400, heap="8g")
        if mon["hwm"] < mon["total"]:
            raise vf.Inconclusive("%s stopped at line %d of %d" % (mod, mon["hwm"], mon["total"]))
        for v in mon["viols"]:
            e = dev[v["l"] - 1]
            ctx.report("%s [seed %s]" % (v["why"], e.get("id")), replay_src=t, tag="docs", key=v["why"].split(" quote=")[0])
    planted = [pp for e in dev if e["ev"] == "doc" for pp in e["planted"]]
    classes = {(pp["tag"], pp["form"], pp["role"]) for pp in planted}
    ctx.cov.update({
        "states": r.distinct, "transitions": r.generated, "exhaustive": True,
        "traces_validated_against_impl": len(starts) + 1,
        "evaluations": sum(1 for e in wev if e["ev"] == "s3.page") + len(planted),
        "distinct_nontrivial": len(starts) + len(classes),
        "rule": "evaluations = listing pages stepped through the real extractor.S3 (%d walks) + URLs planted in %d documents; distinct = walks + (document kind, position, role) classes %d" % (
            len(starts), sum(1 for e in dev if e["ev"] == "doc"), len(classes)),
        "impl_spec_accepted": not impl["drift"],
        "samples": [starts[1], sorted(classes)[:6]],
    })
    ctx.assumptions += [
        "the bucket server is the harness's (its pages are checked against S3Walk.tla by TLC); continuation tokens mean 'start after this entry'",
        "object URLs are compared by key (the extractor always builds https://<host>/<key>)",
        "documents carry absolute http URLs on the origin's hosts",
    ]
